"""Shared machinery for /verif/bin/check: builds, correspondence runs, shrinking, verdicts, evidence."""
import fcntl, hashlib, json, os, random, re, subprocess, sys, time, concurrent.futures as cf

VERIF = os.path.dirname(os.path.dirname(os.path.abspath(__file__)))
LEAN = os.path.join(VERIF, "lean")
HARNESS = os.environ.get("VERIF_HARNESS", os.path.join(VERIF, "harness"))   # scratch copy when testing a seeded change
OUT = os.environ.get("VERIF_OUT", VERIF)          # where evidence/ and replay/ go
def oracle_exe(comp): return os.path.join(LEAN, ".lake", "build", "bin", "oracle_" + comp)
def drive_exe(comp): return os.path.join(HARNESS, "bin", "drive_" + comp)
EXTRACT = os.path.join(HARNESS, "bin", "extract")
REPO = os.environ.get("VERIF_REPO", "/repo")
ALLOWED_AXIOMS = {"propext", "Classical.choice", "Quot.sound"}
NCPU = min(16, os.cpu_count() or 4)

def goenv():
    e = dict(os.environ)
    e["GOFLAGS"] = "-mod=mod"
    e["GOPROXY"] = "off"
    e.pop("GOTOOLCHAIN", None)   # /repo needs go1.26.1 via the auto switch
    e.pop("GOSUMDB", None)
    e.setdefault("GOCACHE", os.path.expanduser("~/.cache/go-build"))
    return e

class Lock:
    def __init__(self, name):
        self.path = os.path.join(VERIF, ".lock-" + name)
    def __enter__(self):
        self.f = open(self.path, "w")
        fcntl.flock(self.f, fcntl.LOCK_EX)
    def __exit__(self, *a):
        fcntl.flock(self.f, fcntl.LOCK_UN)
        self.f.close()

def sh(cmd, cwd=None, env=None, timeout=None, inp=None):
    p = subprocess.run(cmd, cwd=cwd, env=env, input=inp, stdout=subprocess.PIPE, stderr=subprocess.STDOUT,
                       timeout=timeout, text=True)
    return p.returncode, p.stdout

# ---------------------------------------------------------------- builds

def build_go(log, cmds=None):
    """go build -tags verif against /repo's current working tree. cmds: list of component names (drive_<c>) or None = all."""
    with Lock("go"):
        gosum = os.path.join(HARNESS, "go.sum")
        try:
            src = open(os.path.join(REPO, "go.sum")).read()
            if not os.path.exists(gosum) or open(gosum).read() != src:
                open(gosum, "w").write(src)
        except OSError:
            pass
        t = time.time()
        pk = ["./cmd/..."] if cmds is None else [f"./cmd/{c}" if c.startswith("extract") else f"./cmd/drive_{c}" for c in cmds]
        os.makedirs(os.path.join(HARNESS, "bin"), exist_ok=True)
        extra = os.environ.get("VERIF_GOBUILD_EXTRA", "").split()     # e.g. -cover -coverpkg=… for bin/coverage
        rc, out = sh(["go", "build", "-tags", "verif"] + extra + ["-o", os.path.join(HARNESS, "bin") + "/"] + pk,
                     cwd=HARNESS, env=goenv(), timeout=900)
        log(f"go build rc={rc} {time.time()-t:.1f}s")
        return rc, out

def build_go_race(log, comps):
    """-race builds of the given drivers: harness/bin/drive_<c>_race (the Go race detector reports unsynchronised accesses of
    two goroutines whether or not the run was unlucky; a report makes the process exit 66, which a stream sees as CRASH … DATA RACE)"""
    with Lock("go"):
        t = time.time()
        for c in comps:
            rc, out = sh(["go", "build", "-race", "-tags", "verif", "-o", os.path.join(HARNESS, "bin", f"drive_{c}_race"), f"./cmd/drive_{c}"],
                         cwd=HARNESS, env=goenv(), timeout=900)
            if rc != 0:
                log(f"go build -race drive_{c} rc={rc}")
                return rc, out
        log(f"go build -race rc=0 {time.time()-t:.1f}s")
        return 0, ""

def extract_facts(log, sections):
    """regenerate lean/GmqttVerif/Generated/<Section>.lean for the given sections from /repo. A section that cannot be
    read removes its module (so the theorems over it stop building) and makes this return non-zero."""
    with Lock("lean"):
        rc, out = sh([EXTRACT, "-repo", REPO, "-outdir", os.path.join(LEAN, "GmqttVerif", "Generated"),
                      "-sections", ",".join(sections)], timeout=180)
    for l in out.split("\n"):
        if l.startswith("changed "):
            log("Generated/%s.lean changed" % l.split()[1])
    return rc, out

def build_lean(targets, log):
    with Lock("lean"):
        t = time.time()
        rc, out = sh(["lake", "build"] + targets, cwd=LEAN, timeout=3000)
        log(f"lake build {' '.join(targets)} rc={rc} {time.time()-t:.1f}s")
        return rc, out

AUDIT_TMPL = """import Lean
{imports}
open Lean Elab Command

-- every theorem of the GmqttVerif modules this property imports, with the axioms it depends on
run_cmd do
  let env ← getEnv
  let names := env.header.moduleNames
  let mut n : Nat := 0
  let mut bad : Array String := #[]
  let mut used : Array Name := #[]
  for (c, ci) in env.constants.map₁.toList do
    match env.getModuleIdxFor? c with
    | some idx =>
      let m := names[idx.toNat]!
      if (`GmqttVerif).isPrefixOf m then
        match ci with
        | .thmInfo _ =>
          if !c.isInternalDetail then
            n := n + 1
          let axs ← Lean.collectAxioms c
          for a in axs do
            if !used.contains a then used := used.push a
            if !(a == ``propext || a == ``Classical.choice || a == ``Quot.sound) then
              bad := bad.push s!"{{c}} uses {{a}}"
        | .axiomInfo _ => bad := bad.push s!"own axiom {{c}}"
        | _ => pure ()
    | none => pure ()
  logInfo m!"AUDIT theorems={{n}} axioms={{used.toList}} bad={{bad.toList}}"
{prints}
"""

def audit(module, theorems, log, extra_modules=()):
    """returns (ok, n_theorems, axioms, problems, per-theorem axiom lines)"""
    os.makedirs(os.path.join(LEAN, "Audit"), exist_ok=True)
    path = os.path.join(LEAN, "Audit", module.split(".")[-1] + ".lean")
    prints = "\n".join(f"#print axioms {t}" for t in theorems)
    imports = "\n".join("import " + m for m in [module] + list(extra_modules))
    open(path, "w").write(AUDIT_TMPL.format(imports=imports, prints=prints))
    t = time.time()
    rc, out = sh(["lake", "env", "lean", path], cwd=LEAN, timeout=1200)
    log(f"audit {module} rc={rc} {time.time()-t:.1f}s")
    m = re.search(r"AUDIT theorems=(\d+) axioms=\[(.*?)\] bad=\[(.*?)\]", out, re.S)
    problems = []
    if rc != 0 or not m:
        return False, 0, [], [f"audit failed rc={rc}: {out[-2000:]}"], out
    n = int(m.group(1))
    axioms = [a.strip() for a in m.group(2).split(",") if a.strip()]
    if m.group(3).strip():
        problems.append("disallowed axioms: " + m.group(3).strip())
    for t in theorems:
        if not re.search(rf"'{re.escape(t)}' (depends on axioms|does not depend on any axioms)", out):
            problems.append(f"theorem {t} missing from audit output")
    return not problems, n, axioms, problems, out

FORBIDDEN = re.compile(r"\bsorry\b|\badmit\b|^\s*axiom\s|native_decide|bv_decide|implemented_by|\bunsafe\s|maxHeartbeats\s+0", re.M)

def strip_lean_comments(s):
    s = re.sub(r"/-.*?-/", "", s, flags=re.S)
    return re.sub(r"--.*", "", s)

def lean_closure(module):
    """source files of `module` and everything of this project it imports, transitively"""
    seen, todo = {}, [module]
    while todo:
        m = todo.pop()
        if m in seen:
            continue
        path = os.path.join(LEAN, *m.split(".")) + ".lean"
        if not os.path.exists(path):
            continue
        seen[m] = path
        for imp in re.findall(r"^\s*import\s+((?:GmqttVerif|Driver)[\w.]*)", open(path).read(), re.M):
            todo.append(imp)
    return list(seen.values())

def grep_forbidden(modules=None):
    """forbidden constructs in the Lean sources a property depends on (all sources when modules is None)"""
    if modules is None:
        paths = [os.path.join(r, f) for r, _, fs in os.walk(LEAN) if ".lake" not in r and not r.endswith("/Audit") for f in fs if f.endswith(".lean")]
    else:
        paths = sorted({p for m in modules for p in lean_closure(m)})
    hits = []
    for p in paths:
        body = strip_lean_comments(open(p).read())
        for m in FORBIDDEN.finditer(body):
            hits.append(f"{os.path.relpath(p, LEAN)}: {m.group(0).strip()}")
    return hits

# ---------------------------------------------------------------- correspondence

def run_proc(cmd, text, timeout):
    """run one side on a batch of op lines; returns (lines or None, note)"""
    try:
        env = dict(os.environ, GOMEMLIMIT="4GiB")
        env.setdefault("GOMAXPROCS", os.environ.get("VERIF_GOMAXPROCS", "1"))   # many processes run side by side
        p = subprocess.run(cmd, input=text, stdout=subprocess.PIPE, stderr=subprocess.PIPE, timeout=timeout, text=True,
                           env=env)
    except subprocess.TimeoutExpired:
        return None, "timeout"
    if p.returncode != 0:
        err = p.stderr if len(p.stderr) <= 1500 else p.stderr[:700] + " … " + p.stderr[-700:]
        return None, f"exit {p.returncode}: {err}"
    return p.stdout.split("\n")[:-1] if p.stdout.endswith("\n") else p.stdout.split("\n"), ""

def run_cases(cmd, cases, timeout=120):
    """cases: list of list-of-lines. returns list of outputs (list of lines) or a crash marker per case."""
    flat = "".join(l + "\n" for c in cases for l in c)
    lines, note = run_proc(cmd, flat, timeout)
    total = sum(len(c) for c in cases)
    if lines is not None and len(lines) == total:
        res, i = [], 0
        for c in cases:
            res.append(lines[i:i + len(c)]); i += len(c)
        return res
    if len(cases) == 1:
        return [["CRASH " + (note or f"got {0 if lines is None else len(lines)} lines for {total}")] ]
    mid = len(cases) // 2
    return run_cases(cmd, cases[:mid], timeout) + run_cases(cmd, cases[mid:], timeout)

def run_parallel(cmd, cases, chunk=None, timeout=120):
    if not cases:
        return []
    chunk = chunk or max(1, (len(cases) + NCPU - 1) // NCPU)
    parts = [cases[i:i + chunk] for i in range(0, len(cases), chunk)]
    with cf.ThreadPoolExecutor(NCPU) as ex:
        outs = list(ex.map(lambda p: run_cases(cmd, p, timeout), parts))
    return [o for part in outs for o in part]

def safe_pred(stream, ops, io, shrunk=False):
    """predicates are written for well-formed cases; a shrunk candidate may not be one (e.g. its `conn` line is gone)"""
    if not stream.predicate:
        return None
    bad = ("no-broker", "bad-op", "badsize") + (("no-conn",) if shrunk else ())
    if any(l.split(" ", 1)[0] in bad for l in io):
        return None        # not a well-formed case (shrinking produces these; `no-conn` is legitimate after a refusal)
    try:
        return stream.predicate(ops, io)
    except (KeyError, IndexError, ValueError, AttributeError, TypeError):
        return None

class Stream:
    """one correspondence stream: same op lines through the real code (`drive …`) and the Lean model (`oracle …`)."""
    def __init__(self, name, comp, gen, predicate=None, nontrivial=None, canon=None,
                 corpus=None, keep_prefix=1, timeout=180, drive_args=(), oracle_args=(), hint=None):
        self.hint = hint   # hint(ops, impl_out) -> ops for the model (resolves nondeterminism the code is allowed)
        self.name, self.comp, self.drive_args, self.oracle_args = name, comp, list(drive_args), list(oracle_args)
        self.gen, self.predicate, self.nontrivial = gen, predicate, nontrivial
        self.canon = canon or (lambda ops, out: out)
        self.corpus, self.keep_prefix, self.timeout = corpus, keep_prefix, timeout
        self.oracle_comp = None    # Lean side when it is not oracle_<comp> (comp = "<c>_race": the -race build of drive_<c>)
        self.gomaxprocs = None     # the implementation side runs with this many Ps (default 1: many processes side by side)
    def impl(self, cases):
        pre = ["env", f"GOMAXPROCS={self.gomaxprocs}"] if self.gomaxprocs else []
        return run_parallel(pre + [drive_exe(self.comp)] + self.drive_args, cases, timeout=self.timeout)
    def model(self, cases, impl_outs=None):
        if self.hint and impl_outs is not None:
            cases = [self.hint(c, o) if len(o) == len(c) else c for c, o in zip(cases, impl_outs)]
        return run_parallel([oracle_exe(self.oracle_comp or self.comp)] + self.oracle_args, cases, timeout=self.timeout)
    def both(self, case):
        io = self.impl([case])[0]
        return io, self.model([case], [io])[0]

def ddmin(ops, keep, fails):
    """delta-debug the op list (first `keep` lines fixed) while `fails(ops)` stays true."""
    head, body = ops[:keep], ops[keep:]
    n = 2
    budget = 300
    deadline = time.time() + float(os.environ.get("VERIF_SHRINK_S", "12"))
    while len(body) >= 1 and budget > 0 and time.time() < deadline:
        size = max(1, len(body) // n)
        reduced = False
        for i in range(0, len(body), size):
            cand = body[:i] + body[i + size:]
            budget -= 1
            if fails(head + cand):
                body, reduced = cand, True
                n = max(n - 1, 2)
                break
            if budget <= 0:
                break
        if not reduced:
            if size == 1:
                break
            n = min(len(body), n * 2)
    return head + body

def load_corpus(prop, stream):
    d = os.path.join(VERIF, "corpus", prop)
    cases = []
    if os.path.isdir(d):
        for f in sorted(os.listdir(d)):
            if f.startswith(stream + "-") and f.endswith(".txt"):
                ops = [l.rstrip("\n") for l in open(os.path.join(d, f)) if l.strip() and not l.startswith("#")]
                if ops:
                    cases.append(ops)
    return cases

# ---------------------------------------------------------------- known findings

def load_known():
    """lines: `finding: property=Cxx id=Fnn match=<recogniser> <text>` / `fixed: property=Cxx <commit> <text>`"""
    res = []
    p = os.path.join(VERIF, "known-findings.txt")
    if os.path.exists(p):
        for l in open(p):
            l = l.strip()
            m = re.match(r"finding:\s+property=(\S+)\s+id=(\S+)\s+match=(\S+)\s+(.*)", l)
            if m:
                res.append(dict(prop=m.group(1), id=m.group(2), match=m.group(3), text=m.group(4)))
    return res

# ---------------------------------------------------------------- a check run

class Run:
    def __init__(self, prop, tier, seed):
        self.prop, self.tier, self.seed = prop, tier, seed
        self.t0 = time.time()
        self.violations = []          # (replay_path, no_input_found)
        self.known_hits = {}          # finding id -> text
        self.cov = dict(evaluations=0, distinct_nontrivial=0, samples=[], streams={}, histogram={})
        self.proof = dict(obligations=0, discharged=0, theorems=[], axioms=[])
        self.notes = []
        self.known = [k for k in load_known() if k["prop"] == prop]
        self.recognisers = {}
        self._nontriv = set()
        os.makedirs(os.path.join(OUT, "replay"), exist_ok=True)
        for f in os.listdir(os.path.join(OUT, "replay")):       # replay files of earlier runs of this property are stale
            if f.startswith(prop + "-") and f.endswith(f"-{seed}.txt"):
                try: os.remove(os.path.join(OUT, "replay", f))
                except OSError: pass
        os.makedirs(os.path.join(OUT, "evidence"), exist_ok=True)

    def log(self, msg):
        print(f"[{self.prop} {time.time()-self.t0:6.1f}s] {msg}", flush=True)

    def replay_path(self, tag):
        return os.path.join(OUT, "replay", f"{self.prop}-{tag}-{self.seed}.txt")

    def violation(self, tag, body, found_input, detail=""):
        """record a violation unless a known-finding recogniser accepts it. body: replay file text."""
        path = self.replay_path(tag)
        with open(path, "w") as f:
            f.write(body)
        self.violations.append((path, not found_input))
        self.log(f"violation [{tag}] {detail} -> {path}")
        return path

    def known_finding(self, case_info):
        """case_info: dict handed to the recognisers. returns the matching finding or None."""
        for k in self.known:
            r = self.recognisers.get(k["match"])
            if r and r(case_info):
                self.known_hits[k["id"]] = k["text"]
                return k
        return None

    def _driver_roots(self, comps):
        """root modules of the oracle executables, read from lakefile.toml"""
        roots = []
        try:
            text = open(os.path.join(LEAN, "lakefile.toml")).read()
            for c in comps:
                m = re.search(r'name = "oracle_%s"\s*\nroot = "Driver\.([\w.]+)"' % re.escape(c), text)
                if m:
                    roots.append(m.group(1))
        except OSError:
            pass
        return roots

    # ---- proof side
    def prove(self, module, theorems, comps=(), thorough_leanchecker=True, extra_modules=()):
        """build the property module(s) (+ the oracle executables of `comps`), audit axioms of every theorem."""
        hits = grep_forbidden([module] + list(extra_modules) + ["Driver." + drv for drv in self._driver_roots(comps)])
        if hits:
            self.violation("proof-grep", "# forbidden constructs in lean/ sources\n" + "\n".join(hits) + "\n", False,
                           "forbidden constructs")
        rc, out = build_lean([module] + list(extra_modules) + ["oracle_" + c for c in comps], self.log)
        if rc != 0:
            self.proof["build_failed"] = True
            body = f"# lake build {module} failed: a proof obligation of {self.prop} is no longer discharged\n"
            errs = [l for l in out.split("\n") if "error" in l.lower()][:40]
            body += "\n".join(errs) + "\n\n# full tail\n" + out[-4000:]
            self.violation("proof-build", body, False, "lake build failed")
            return False
        ok, n, axioms, problems, aout = audit(module, theorems, self.log, extra_modules)
        self.proof.update(obligations=n, discharged=n if ok else 0, theorems=theorems, axioms=axioms)
        if not ok:
            self.violation("proof-audit", "# axiom audit failed\n" + "\n".join(problems) + "\n" + aout[-3000:], False,
                           "audit failed")
            return False
        if self.tier == "thorough" and thorough_leanchecker:
            rc, out = sh(["lake", "env", "leanchecker", module] + list(extra_modules), cwd=LEAN, timeout=3000)
            self.log(f"leanchecker {module} rc={rc}")
            self.proof["leanchecker"] = rc
            if rc != 0:
                self.violation("proof-leanchecker", out[-4000:], False, "leanchecker failed")
                return False
        return True

    def interp_crosscheck(self, stream, cases, impl, model, k=12):
        """thorough tier: the compiled oracle (Lean compiler + runtime) is trusted to evaluate the model's definitions as the
        kernel's reduction would; re-evaluate a sample of cases with the Lean INTERPRETER (`lean --run` on the driver's root
        module) and compare line by line. A difference means the executable used for the model side cannot be believed."""
        roots = self._driver_roots([stream.comp])
        if not roots:
            return
        idx = [i for i in range(len(cases)) if len(model[i]) == len(cases[i])][:k]
        if not idx:
            return
        sample = [cases[i] for i in idx]
        if stream.hint:
            sample = [stream.hint(c, impl[i]) if len(impl[i]) == len(c) else c for c, i in zip(sample, idx)]
        path = os.path.join(LEAN, "Driver", *roots[0].split(".")) + ".lean"
        t = time.time()
        flat = "".join(l + "\n" for c in sample for l in c)
        lines, note = run_proc(["bash", "-c", f'cd "{LEAN}" && exec lake env lean --run "{path}" "$@"', "interp"] + stream.oracle_args,
                               flat, 900)
        want = [l for i in idx for l in model[i]]
        self.log(f"interpreter cross-check {stream.name}: {len(idx)} cases, {len(want)} lines, {time.time()-t:.1f}s {note}")
        self.cov.setdefault("interpreter_crosscheck", {})[stream.name] = dict(cases=len(idx), lines=len(want), agree=lines == want)
        if lines is None:
            self.notes.append(f"interpreter cross-check of {stream.name} could not run: {note[:200]}")
            return
        if lines != want:
            j = next((n for n, (a, b) in enumerate(zip(lines, want)) if a != b), min(len(lines), len(want)))
            body = (f"# the compiled oracle oracle_{stream.comp} and the Lean interpreter disagree on the model's output\n"
                    f"# first difference at output line {j}: interpreter `{lines[j] if j < len(lines) else '<missing>'}` "
                    f"compiled `{want[j] if j < len(want) else '<missing>'}`\n#stream {stream.name}\n" + flat)
            self.violation(f"{stream.name}-interp", body, True, "compiled oracle and interpreter disagree")

    # ---- correspondence side
    def correspond(self, stream, n_cases):
        rng = random.Random(f"{self.seed}/{self.prop}/{stream.name}")
        corpus = load_corpus(self.prop, stream.name) + (stream.corpus or [])
        cases = corpus + [stream.gen(rng) for _ in range(n_cases)]
        t = time.time()
        impl = stream.impl(cases)
        # harness-level failures (a driver could not set its scenario up under load, a process died) are retried
        # alone before they are believed
        for i, o in enumerate(impl):
            for _ in range(2):
                if any(l.startswith(("err-", "CRASH", "dial-failed", "send-failed", "hung", "HANG")) or " HANG" in l for l in o):
                    o = stream.impl([cases[i]])[0]
                    impl[i] = o
        model = stream.model(cases, impl)
        if self.tier == "thorough" and type(stream).model is Stream.model:
            self.interp_crosscheck(stream, cases, impl, model)
        self.log(f"stream {stream.name}: {len(cases)} cases ({len(corpus)} corpus), "
                 f"{sum(len(c) for c in cases)} ops, {time.time()-t:.1f}s")
        st = dict(cases=len(cases), ops=sum(len(c) for c in cases), mismatches=0, predicate_failures=0,
                  nontrivial=0, known=0)
        self.cov["streams"][stream.name] = st
        hist = self.cov["histogram"]
        pred_fail, mism = [], []
        for ops, io, mo in zip(cases, impl, model):
            io_c, mo_c = stream.canon(ops, io), stream.canon(ops, mo)
            for l in ops:
                k = stream.name + ":" + l.split(" ", 1)[0]
                hist[k] = hist.get(k, 0) + 1
            for l in io:
                for w in re.findall(r"(?:^|\s)([a-zA-Z_?]+)(?==|\s|$)", l)[:6]:
                    k = stream.name + ":out:" + w
                    hist[k] = hist.get(k, 0) + 1
            if stream.nontrivial and stream.nontrivial(ops, io):
                h = hashlib.sha1("\n".join(ops).encode()).hexdigest()
                if h not in self._nontriv:
                    self._nontriv.add(h); st["nontrivial"] += 1
            why = safe_pred(stream, ops, io)
            if why:
                pred_fail.append((ops, why, io, mo))
                # a stream whose model mirrors a recorded finding keeps comparing the cases that show it
                if getattr(stream, "compare_known", False) and io_c != mo_c and \
                        self.known_finding(dict(stream=stream.name, ops=ops, impl=None, model=None, why=why, kind="predicate")):
                    mism.append((ops, io, mo))
            elif io_c != mo_c:
                mism.append((ops, io, mo))
        self.cov["evaluations"] += len(cases)
        self.cov["distinct_nontrivial"] = len(self._nontriv)
        if len(self.cov["samples"]) < 6 and cases:
            self.cov["samples"].append({"stream": stream.name, "ops": cases[len(corpus)] if len(cases) > len(corpus) else cases[0],
                                        "impl_out": impl[len(corpus)] if len(cases) > len(corpus) else impl[0]})
        st["predicate_failures"], st["mismatches"] = len(pred_fail), len(mism)
        # --- property predicate failed on the implementation's own outputs: concrete failing input
        reported = 0
        # one representative (the shortest case) per class of reason, so distinct violations are all reported
        classes = {}
        for ops, why, io0, mo0 in sorted(pred_fail, key=lambda x: len(x[0])):
            classes.setdefault(re.sub(r"\d+", "N", why)[:80], (ops, why, io0, mo0))
        tried = 0
        for ops, why, io0, mo0 in list(classes.values()):
            if self.known_finding(dict(stream=stream.name, ops=ops, impl=None, model=None, why=why, kind="predicate")):
                st["known"] += 1       # recognised without shrinking
                continue
            tried += 1
            if tried > 12:
                break
            def fails(c):
                return bool(safe_pred(stream, c, stream.impl([c])[0], shrunk=True))
            small = ddmin(ops, stream.keep_prefix, fails)
            io, mo = stream.both(small)
            why2 = safe_pred(stream, small, io)
            if getattr(stream, "timed", False):
                # a stream with real waits: under heavy machine load a scenario clock can be off by more than the predicate's
                # tolerance. A failure that three further runs of the very same case do not show again is not reported (it is
                # counted in the evidence); a real violation of a timed property is deterministic in its case.
                # (every one of three further runs has to show it: on a machine so loaded that clocks slip, one run in three showing
                #  a one-second boundary flip is the expected noise)
                again = why2
                for _ in range(3):
                    if not again:
                        break
                    io, mo = stream.both(small)
                    again = safe_pred(stream, small, io)
                if not again:
                    st["not_reproduced"] = st.get("not_reproduced", 0) + 1
                    self.log(f"stream {stream.name}: a predicate failure did not show again in every one of 3 re-runs (timing): {why[:160]}")
                    continue
                why2 = again
            note = ""
            if why2 is None:
                # the failure did not show again on the (unshrunk) case: report it with the outputs in which it was seen
                if small == ops:
                    io, mo = io0, mo0
                note = " [seen once; the re-run of this case did not show it — outputs below are those of the run that did]"
            why = why2 or why
            info = dict(stream=stream.name, ops=small, impl=io, model=mo, why=why, kind="predicate")
            k = self.known_finding(info)
            if k:
                st["known"] += 1
                continue
            reported += 1
            body = self.render(stream, small, io, mo, f"property predicate fails on the implementation: {why}{note}")
            self.violation(f"{stream.name}-pred{reported}", body, True, why)
            if reported >= 4:
                break
        # --- outputs differ but the predicate holds: correspondence broken, search found no failing input
        reported = 0
        for ops, io0, mo0 in sorted(mism, key=lambda x: len(x[0])):
            if reported >= 25:
                break
            def differs(c):
                a, b = stream.both(c)
                if any(l.split(" ", 1)[0] == "bad-op" for l in a + b):
                    return False       # an ill-formed candidate (e.g. its `dial` line is gone): not the difference being shrunk
                return stream.canon(c, a) != stream.canon(c, b)
            small = ddmin(ops, stream.keep_prefix, differs)
            io, mo = stream.both(small)
            if getattr(stream, "timed", False):
                if stream.canon(small, io) == stream.canon(small, mo) or not all(differs(small) for _ in range(3)):
                    st["not_reproduced"] = st.get("not_reproduced", 0) + 1
                    self.log(f"stream {stream.name}: a model/implementation difference did not show again in every one of 3 re-runs (timing)")
                    continue
                io, mo = stream.both(small)
            seen_once = ""
            if stream.canon(small, io) == stream.canon(small, mo):
                # the difference does not show in this run of the shrunk case: report the case and the outputs in which it was seen
                small, io, mo = ops, io0, mo0
                seen_once = " [seen in the run whose outputs are shown; a re-run of the case did not show it]"
            why = safe_pred(stream, small, io)
            if why and getattr(stream, "compare_known", False) and \
                    self.known_finding(dict(stream=stream.name, ops=small, impl=io, model=mo, why=why, kind="predicate")):
                why = None             # the recorded finding is not what makes model and implementation differ here
            info = dict(stream=stream.name, ops=small, impl=io, model=mo, why=why, kind="mismatch")
            k = self.known_finding(info)
            if k:
                st["known"] += 1
                continue
            reported += 1
            if why:
                body = self.render(stream, small, io, mo, f"property predicate fails on the implementation: {why}")
                self.violation(f"{stream.name}-pred-m{reported}", body, True, why)
            else:
                body = self.render(stream, small, io, mo,
                                   f"correspondence stream '{stream.name}' no longer checks: model and implementation differ; "
                                   "the property predicate found no failing input on this case" + seen_once)
                self.violation(f"{stream.name}-corr{reported}", body, False, "model/impl mismatch")
            if reported >= 2:
                break
        return st

    def render(self, stream, ops, io, mo, headline):
        lines = [f"# property={self.prop} stream={stream.name} seed={self.seed} tier={self.tier}", f"# {headline}",
                 f"# replay: bin/check {self.prop} --replay <this file>",
                 f"#stream {stream.name}", "# columns: op | implementation | model"]
        ca, cb = stream.canon(ops, io), stream.canon(ops, mo)
        for i, op in enumerate(ops):
            a = io[i] if i < len(io) else "<missing>"
            b = mo[i] if i < len(mo) else "<missing>"
            same = (ca[i] == cb[i]) if i < len(ca) and i < len(cb) else (a == b)
            mark = "" if same else "   <<< differs"
            lines.append(f"#   {op}  |  {a}  |  {b}{mark}")
        return "\n".join(lines) + "\n" + "\n".join(ops) + "\n"

    # ---- verdict
    def finish(self, level="proof", assumptions=None, rule="", extra=None):
        cov = dict(self.cov)
        cov["rule"] = rule
        cov["obligations"] = self.proof["obligations"]
        cov["discharged"] = self.proof["discharged"]
        cov["checker_cmd"] = f"cd lean && lake build GmqttVerif.Properties.{self.prop} && lake env lean Audit/{self.prop}.lean" + \
            (f" && lake env leanchecker GmqttVerif.Properties.{self.prop}" if self.tier == "thorough" else "")
        cov["trusted_base"] = ["Lean 4.33.0 kernel"] + [f"axiom {a}" for a in self.proof["axioms"]] + \
            ["Lean compiler/runtime for the `oracle` executable", "Go harness cmd/drive + vlib (generators, canonicalisation, predicates)"]
        cov["property_theorems"] = self.proof["theorems"]
        cov["known_findings_hit"] = sorted(self.known_hits)
        if extra:
            cov.update(extra)
        ev = dict(property_id=self.prop, tier=self.tier, seed=self.seed, level=level, coverage=cov,
                  assumptions=(assumptions or []) + self.notes, wall_s=round(time.time() - self.t0, 2),
                  violations=len(self.violations))
        with open(os.path.join(OUT, "evidence", f"{self.prop}.json"), "w") as f:
            json.dump(ev, f, indent=1, default=str)
        for fid, text in sorted(self.known_hits.items()):
            print(f"KNOWN-FINDING: property={self.prop} {fid} {text}")
        for path, noinput in self.violations:
            print(f"VIOLATION property={self.prop} replay={path}" + (" no-failing-input-found" if noinput else ""))
        self.log(f"done: {len(self.violations)} violation(s), {self.cov['evaluations']} cases, "
                 f"{self.proof['discharged']}/{self.proof['obligations']} obligations")
        return 1 if self.violations else 0


# ---------------------------------------------------------------- standard driver for a property module

def standard_run(r, mod):
    """mod provides: MODULE, THEOREMS, COMPS, streams(tier)->[(Stream, n)], RULE, ASSUME; optional RECOGNISERS, extra(r)."""
    r.recognisers.update(getattr(mod, "RECOGNISERS", {}))
    if getattr(mod, "NEEDS_FACTS", None):
        rc, out = build_go(r.log, ["extract"])
        if rc == 0:
            rc, out = extract_facts(r.log, mod.NEEDS_FACTS)
        if rc != 0:
            r.violation("extract", "# fact extractor failed on /repo: the regenerated tie no longer checks\n" + out[-3000:], False,
                        "extractor failed")
    r.prove(mod.MODULE, mod.THEOREMS, comps=mod.COMPS, extra_modules=getattr(mod, "EXTRA_MODULES", ()))
    rc, out = build_go(r.log, list(mod.COMPS) + list(getattr(mod, "GO_EXTRA", [])))
    if rc != 0:
        r.violation("go-build", "# harness does not build against /repo any more\n" + out[-3000:], False, "go build failed")
        return r.finish(rule=mod.RULE, assumptions=mod.ASSUME)
    if getattr(mod, "RACE_COMPS", None):
        rc, out = build_go_race(r.log, mod.RACE_COMPS)
        if rc != 0:
            r.violation("go-build", "# the -race build of the harness fails against /repo\n" + out[-3000:], False, "go build -race failed")
            return r.finish(rule=mod.RULE, assumptions=mod.ASSUME)
    for s, n in mod.streams(r.tier):
        r.correspond(s, n)
    if hasattr(mod, "extra"):
        mod.extra(r)
    return r.finish(rule=mod.RULE, assumptions=mod.ASSUME)

def replay(r, mod, path):
    lines = [l.rstrip("\n") for l in open(path)]
    name = next((l.split()[1] for l in lines if l.startswith("#stream ")), None)
    ops = [l for l in lines if l.strip() and not l.startswith("#")]
    streams = {s.name: s for s, _ in mod.streams(r.tier)}
    if name not in streams:
        print("\n".join(lines))
        print(f"replay file is not an op-stream case (stream={name}); it documents a broken proof obligation / build")
        return 1
    s = streams[name]
    rc, out = build_go(r.log, list(mod.COMPS) + list(getattr(mod, "GO_EXTRA", [])))
    rc2, out2 = build_lean(["oracle_" + c for c in mod.COMPS], r.log)
    io, mo = s.both(ops)
    why = safe_pred(s, ops, io)
    print(r.render(s, ops, io, mo, f"predicate: {why or 'holds'}; outputs {'differ' if s.canon(ops, io) != s.canon(ops, mo) else 'agree'}"))
    if why:
        print(f"VIOLATION property={r.prop} replay={path}")
        return 1
    if s.canon(ops, io) != s.canon(ops, mo):
        print(f"VIOLATION property={r.prop} replay={path} no-failing-input-found")
        return 1
    return 0
