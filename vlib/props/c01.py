"""C01 — PUBLISH reaches exactly the matching subscribers, at the right QoS, in order (wire level)."""
import collections
from .. import core, wire

PROP = "C01"
MODULE = "GmqttVerif.Properties.C01"
THEOREMS = ["GmqttVerif.Deliver.deliver_overlap_exact", "GmqttVerif.Deliver.deliver_onlyonce_exact",
            "GmqttVerif.Deliver.deliver_nothing_unmatched", "GmqttVerif.Deliver.matched_iff",
            "GmqttVerif.Broker.publish_ack_same_id", "GmqttVerif.Broker.per_publisher_order",
            "GmqttVerif.C01.deliver_runs_under_server_mu"]
COMPS = ["broker"]
NEEDS_FACTS = ["MuHeld"]

FILTERS = ["a", "a/b", "a/+", "a/#", "#", "+", "+/b", "+/+", "a/b/#", "a//b", "a/+/b", "/", "+/", "b", "$x/a", "$x/#", "$x/+", "a/b/c", "/#"]
TOPICS = ["a", "a/b", "a/b/c", "b", "a/", "a//b", "$x/a", "$x", "/", "a/c", "c", "a/b/", "/b"]

def mqtt_match(flt, topic):
    """independent MQTT 4.7 matching"""
    fl, tl = flt.split("/"), topic.split("/")
    if topic.startswith("$") and fl[0] in ("+", "#"):
        return False
    i = 0
    for i, f in enumerate(fl):
        if f == "#":
            return i == len(fl) - 1
        if i >= len(tl):
            return False
        if f != "+" and f != tl[i]:
            return False
    return len(fl) == len(tl)

def gen(rng):
    mode = rng.choice(["overlap", "onlyonce"])
    ops = [f"new mode={mode} q0={rng.choice([0, 1])}"]
    n = rng.randint(2, 4)
    names = ["a", "b", "c", "d"][:n]
    ver = {}
    for c in names:
        ver[c] = rng.choice([4, 5, 5])
        ops.append(f"conn {c} c{c} v={ver[c]} cs=1")
    pid = 0
    for c in names:
        for _ in range(rng.choice([0, 1, 2, 3, 3])):
            pid += 1
            k = rng.choice([1, 1, 2])
            ts = []
            for _ in range(k):
                f = rng.choice(FILTERS)
                o = [f, str(rng.choice([0, 1, 2]))]
                if ver[c] == 5:
                    if rng.random() < 0.3: o.append("nl")
                    if rng.random() < 0.3: o.append("rap")
                ts.append("|".join(o))
            line = f"sub {c} {pid} " + " ".join(ts)
            if ver[c] == 5 and rng.random() < 0.5:
                line += f" id={rng.randint(1, 200)}"
            ops.append(line)
    tag = 0
    bound = {}
    for _ in range(rng.randint(2, 10)):
        r = rng.random()
        tag += 1
        topic = rng.choice(TOPICS)
        q = rng.choice([0, 1, 2])
        if r < 0.15:
            ops.append(f"api pub {topic} q={q} r={rng.choice([0, 0, 1])} tag=m{tag}")
        elif r < 0.25 and names:
            c = rng.choice(names)
            f = rng.choice(FILTERS)
            pid += 1
            if rng.random() < 0.5:
                ops.append(f"unsub {c} {pid} {f}")
            else:
                ops.append(f"sub {c} {pid} {f}|{rng.choice([0, 1, 2])}")
            continue
        else:
            c = rng.choice(names)
            pid += 1
            al = ""
            if ver[c] == 5 and rng.random() < 0.3:
                # a v5 publisher may use topic aliases (CONNACK advertises 10): bind, use (zero-length topic), re-bind to another topic
                a = rng.choice([1, 1, 2, 10])
                if (c, a) in bound and rng.random() < 0.5:
                    topic_w = "~"
                else:
                    bound[(c, a)] = topic
                    topic_w = topic
                al = f" a={a}"
                ops.append(f"pub {c} {topic_w} q={q} pid={pid if q else 0} r={rng.choice([0, 0, 0, 1])}{al} tag=m{tag}")
            else:
                ops.append(f"pub {c} {topic} q={q} pid={pid if q else 0} r={rng.choice([0, 0, 0, 1])} tag=m{tag}")
            if q == 2:
                ops.append(f"rel {c} {pid}")
        for s in names:
            ops.append(f"ack {s} puback all")
            ops.append(f"ack {s} pubrec all")
            ops.append(f"ack {s} pubcomp all")
    return ops

class Table:
    """reference bookkeeping from the scripted clients' point of view"""
    def __init__(self):
        self.subs = {}    # cid -> {filter: dict(qos, nl, rap, id)}
        self.ver = {}     # conn -> version
        self.cid = {}     # conn -> cid

def expected_copies(mode, table, src_cid, topic, qos, retain):
    """-> {cid: list of (qos, retain-alternatives(set), sid string)} for online non-shared subscriptions"""
    res = {}
    for cid, fs in table.subs.items():
        hits = [(f, o) for f, o in fs.items() if not f.startswith("$share/") and mqtt_match(f, topic) and not (o["nl"] and cid == src_cid)]
        if not hits:
            continue
        if mode == "overlap":
            res[cid] = [(min(qos, o["qos"]), {int(bool(retain and o["rap"]))}, [o["id"]] if o["id"] else []) for f, o in hits]
        else:
            mx = max(o["qos"] for f, o in hits)
            rets = {int(bool(retain and o["rap"])) for f, o in hits if o["qos"] == mx}
            res[cid] = [(min(qos, mx), rets, sorted(o["id"] for f, o in hits if o["id"]))]
    return res

def predicate(ops, out):
    if len(out) != len(ops) or (out and out[0].startswith("CRASH")):
        return "implementation crashed or hung: " + (out[0] if out else "")
    mode = "onlyonce"
    t = Table()
    aliases = {}         # (connection, alias) -> topic, as the publisher bound it
    for op, line in zip(ops, out):
        f = op.split()
        pre, conns = wire.parse_line(line)
        if "HANG" in line:
            return f"broker did not become quiescent after `{op}`"
        if f[0] == "new":
            mode = next((x[5:] for x in f if x.startswith("mode=")), "onlyonce")
        elif f[0] == "conn":
            t.cid[f[1]] = f[2]
            t.ver[f[1]] = int(next((x[2:] for x in f if x.startswith("v=")), "4"))
            t.subs.setdefault(f[2], {})
            if any(x.startswith("connack(sp=0") for x in conns.get(f[1], ([], []))[0]):
                t.subs[f[2]] = {}
        elif f[0] == "sub":
            h = conns.get(f[1], ([], []))[0]
            sa = next((x for x in h if x.startswith("suback(")), None)
            if sa is None:
                return f"no SUBACK for `{op}`"
            codes = sa[sa.index(",") + 1:-1].split("+")
            sid = int(next((x[3:] for x in f if x.startswith("id=")), "0"))
            tops = [x for x in f[3:] if not x.startswith("id=")]
            lastopt = {tp.split("|")[0]: tp for tp in tops}   # one SUBSCRIBE naming a filter twice: the last options win
            for tp0, code in zip(tops, codes):
                ps = lastopt[tp0.split("|")[0]].split("|")
                if int(code) < 128:
                    if int(code) != int(ps[1]):
                        return f"`{op}`: SUBACK grants {code} for requested QoS {ps[1]}"
                    t.subs[t.cid[f[1]]][ps[0]] = dict(qos=int(ps[1]), nl="nl" in ps[2:], rap="rap" in ps[2:],
                                                       id=sid if t.ver[f[1]] == 5 else 0)
        elif f[0] == "unsub":
            for tp in f[3:]:
                t.subs[t.cid[f[1]]].pop(tp, None)
        elif f[0] == "pub" or (f[0] == "api" and f[1] == "pub"):
            kv = dict(x.split("=", 1) for x in f if "=" in x)
            qos, retain, tag = int(kv.get("q", 0)), int(kv.get("r", 0)), kv.get("tag", "~")
            if f[0] == "pub":
                src, topic = t.cid[f[1]], f[2]
                if "a" in kv:
                    # topic alias (MQTT 5 §3.3.2.3.4): a non-empty topic (re)binds the alias on this connection, an empty one uses it
                    if topic == "~":
                        topic = aliases.get((f[1], kv["a"]), "~")
                    else:
                        aliases[(f[1], kv["a"])] = topic
                h = conns.get(f[1], ([], []))[0]
                pid = kv.get("pid", "0")
                acks = [x for x in h if x.startswith(("puback(", "pubrec("))]
                want = {0: [], 1: ["puback(" + pid + ","], 2: ["pubrec(" + pid + ","]}[qos]
                if len(acks) != len(want) or any(not a.startswith(w) for a, w in zip(acks, want)):
                    return f"`{op}`: acknowledgement {acks}, expected one {want}"
            else:
                src, topic = "", f[2]
            exp = expected_copies(mode, t, src, topic, qos, retain)
            by_cid = collections.defaultdict(list)
            for name, (h, p) in conns.items():
                for x in p:
                    pf = wire.pub_fields(x)
                    if pf is None:
                        continue
                    by_cid[t.cid.get(name, name)].append((name, pf))
            for cid, got in by_cid.items():
                want = list(exp.get(cid, []))
                if not want:
                    return f"`{op}`: {cid} received {len(got)} PUBLISH but none of its subscriptions matches {topic}"
                for name, pf in got:
                    if pf["t"] != topic or pf["tag"] != tag:
                        return f"`{op}`: {cid} received a different message {pf}"
                    if pf["d"] != 0:
                        return f"`{op}`: first delivery to {cid} carries DUP=1"
                    v5 = t.ver[name] == 5
                    hit = None
                    for w in want:
                        wq, wr, wsid = w
                        sid = "+".join(map(str, sorted(wsid))) if (wsid and v5) else "-"
                        if pf["q"] == wq and pf["r"] in wr and pf["sid"] == sid:
                            hit = w
                            break
                    if hit is None:
                        return f"`{op}`: {cid} received q={pf['q']} r={pf['r']} sid={pf['sid']}, not among the expected copies {want}"
                    want.remove(hit)
                if want:
                    return f"`{op}`: {cid} is missing {len(want)} copy/copies {want} of {tag} on {topic}"
            for cid, want in exp.items():
                if cid not in by_cid and want and cid in t.cid.values():
                    return f"`{op}`: {cid} has matching subscriptions but received nothing for {tag} on {topic}"
    return None

def nontrivial(ops, out):
    """a client receives >= 2 copies in one op, or a NoLocal / RAP / subscription-id option is present and a message flows"""
    opt = any(("|nl" in o or "|rap" in o or " id=" in o) for o in ops if o.startswith("sub "))
    flows = False
    for op, line in zip(ops, out):
        if op.startswith(("pub ", "api pub")):
            _, conns = wire.parse_line(line)
            for name, (h, p) in conns.items():
                if len(p) >= 2:
                    return True
                flows = flows or bool(p)
    return opt and flows

def canon(ops, out):
    return wire.canon(ops, out)

# ---------------------------------------------------------------- backlog stream: offline / oversize / order

def pub_size(topic, qos, plen, v5):
    rl = 2 + len(topic) + (2 if qos else 0) + (1 if v5 else 0) + plen
    return 1 + (1 if rl <= 127 else 2) + rl

def gen_backlog(rng):
    """one persistent subscriber with a Maximum Packet Size; messages of sizes around it pile up while it is offline
    (or while its window is closed); after the reconnect everything that fits must arrive, in publication order"""
    v = rng.choice([5, 5, 4])
    limit = rng.choice([30, 40, 60]) if v == 5 else None
    rm = rng.choice([None, 1, 2]) if v == 5 else None
    ops = [f"new mode=onlyonce q0=1 mi={rng.choice([100, 2])}", "conn p cp v=5 cs=1"]
    def connect(name, lim=None):
        line = f"conn {name} cs v={v} cs=0"
        if v == 5:
            line += " se=300"
            if lim: line += f" mp={lim}"
            if rm: line += f" rm={rm}"
        ops.append(line)
    # the connection that creates the session may declare another (or no) Maximum Packet Size than the one that resumes it
    first_limit = rng.choice([limit, limit, None, 1000]) if limit else None
    connect("s1", first_limit)
    ops.append(f"sub s1 1 t/#|{rng.choice([1, 2, 2])}")
    pid, tag = 1, 0
    def burst(k):
        nonlocal pid, tag
        for _ in range(k):
            tag += 1; pid += 1
            q = rng.choice([1, 1, 2, 0])
            base = (limit or 40)
            n = max(1, base - rng.choice([22, 18, 15, 14, 13, 12, 11, 10, 8, 4]))
            ops.append(f"pub p t/{rng.choice(['a', 'bb'])} q={q} pid={pid if q else 0} tag=m{tag} n={n}")
            if q == 2: ops.append(f"rel p {pid}")
    mode = rng.choice(["offline", "offline", "window"])
    if mode == "offline":
        ops.append(rng.choice(["close s1", "disc s1"]))
        burst(rng.randint(2, 7))
        connect("s2", limit)
        last = "s2"
    else:
        limit = first_limit
        burst(rng.randint(3, 8))      # the window (rm / mi) fills, the rest waits in the queue
        last = "s1"
    for _ in range(10):
        ops += [f"ack {last} puback all", f"ack {last} pubrec all", f"ack {last} pubcomp all"]
    ops.append(f"ping {last}")
    return ops

def predicate_backlog(ops, out):
    if len(out) != len(ops) or (out and out[0].startswith("CRASH")):
        return "implementation crashed or hung: " + (out[0] if out else "")
    v, limit, subq = 4, None, 0
    sent = []            # (tag, topic, qos, n) in publication order
    got = []             # tags in arrival order (first transmissions only)
    for op, line in zip(ops, out):
        if "HANG" in line:
            return f"broker did not become quiescent after `{op}`"
        f = op.split()
        kv = dict(x.split("=", 1) for x in f if "=" in x)
        pre, conns = wire.parse_line(line)
        if f[0] == "conn" and f[2] == "cs":
            v = int(kv.get("v", 4)); limit = int(kv["mp"]) if "mp" in kv else None
        elif f[0] == "sub":
            subq = int(f[3].split("|")[1])
        elif f[0] == "pub":
            sent.append((kv["tag"], f[2], int(kv["q"]), int(kv.get("n", 0))))
        for name, (h, p) in conns.items():
            if not name.startswith("s"):
                continue
            for x in p:
                pf = wire.pub_fields(x)
                if pf and pf["d"] == 0:
                    if limit is not None and pf["sz"] > limit:
                        return f"`{op}`: PUBLISH of {pf['sz']} bytes sent to a client whose Maximum Packet Size is {limit}"
                    got.append(pf["tag"])
    want = []
    for tag, topic, q, n in sent:
        eq = min(q, subq)
        size = pub_size(topic, eq, max(n, len(tag)), v == 5)
        if limit is None or size <= limit:
            want.append(tag)
    if got != want:
        missing = [t for t in want if t not in got]
        extra = [t for t in got if t not in want]
        if missing or extra:
            return f"after the backlog drained the subscriber has {got}; expected exactly the messages that fit, {want} (missing {missing}, unexpected {extra})"
        return f"messages of one publisher arrived out of publication order: {got}, published {want}"
    return None

def nontrivial_backlog(ops, out):
    return any("mp=" in o for o in ops) and sum(1 for o in ops if o.startswith("pub ")) >= 3

# ---------------------------------------------------------------- a publisher that sends a burst and goes away

def gen_burst(rng):
    """a publisher writes a burst of PUBLISH packets (and, half the time, a DISCONNECT) and closes its socket at once: everything
    reaches the broker before it can notice the end. With QoS 0 the broker never writes to the publisher, so nothing tells it the
    peer is gone before it has read the whole burst: every message that matches a subscription must be delivered (seed C01-5)"""
    ops = [f"new mode={rng.choice(['overlap', 'onlyonce'])}", f"conn s cs v={rng.choice([4, 5])} cs=1",
           f"sub s 1 t/#|{rng.choice([0, 1])}", f"conn p cp v={rng.choice([4, 5])} cs=1"]
    tag = 0
    for rnd in range(rng.randint(1, 3)):
        k = rng.choice([2, 5, 8, 12, 20])
        items = []
        for i in range(k):
            tag += 1
            items.append(f"{0}:b{tag}")
        ops.append(f"close p burst={','.join(items)} q=0 topic={rng.choice(['t/a', 't/b'])}")
        ops += ["ack s puback all", "ping s"]
        ops.append(f"conn p cp v={rng.choice([4, 5])} cs=1")
    return ops

def pred_burst(ops, out):
    if len(out) != len(ops) or (out and out[0].startswith("CRASH")):
        return "implementation crashed or hung: " + (out[0] if out else "")
    for op, line in zip(ops, out):
        if "HANG" in line:
            return f"broker did not become quiescent after `{op}`"
        if op.startswith("close ") and " burst=" in op:
            kv = dict(x.split("=", 1) for x in op.split() if "=" in x)
            tags = [it.split(":")[1] for it in kv["burst"].split(",")]
            _, conns = wire.parse_line(line)
            got = [g["tag"] for g in (wire.pub_fields(x) for x in conns.get("s", ([], []))[1]) if g]
            if got != tags:
                return (f"`{op}`: the publisher sent {len(tags)} QoS 0 messages matching the subscription and closed; the subscriber got "
                        f"{got} — every one must be delivered, in order (no documented drop condition applies)")
    return None

def hint_burst(ops, impl_out):
    res = []
    for op, line in zip(ops, impl_out):
        if op.startswith("close ") and " burst=" in op:
            _, conns = wire.parse_line(line)
            got = [g for g in (wire.pub_fields(x) for x in conns.get("s", ([], []))[1]) if g]
            op += f" done={len(got)}"
        res.append(op)
    return res + list(ops[len(res):])

def streams(tier):
    n = 600 if tier == "quick" else 20000
    return [(core.Stream("broker-deliver", "broker", gen, predicate, nontrivial, canon=canon, keep_prefix=1, hint=wire.shared_hints), n),
            (core.Stream("broker-backlog", "broker", gen_backlog, predicate_backlog, nontrivial_backlog, canon=canon, keep_prefix=1,
                         hint=wire.shared_hints), n // 2),
            (core.Stream("broker-burst-close", "broker", gen_burst, pred_burst, lambda ops, out: True, canon=canon, keep_prefix=4,
                         hint=hint_burst), 80 if tier == "quick" else 3000),
            _par(tier)]

def _par(tier):
    from . import c01par
    return c01par.stream(tier)

def run(r):
    return core.standard_run(r, __import__(__name__, fromlist=["x"]))

RULE = ("wire scenarios against a real in-process broker (in-memory listener, scripted v3.1.1/v5 clients): 2-4 online clients, "
        "subscription tables over levels {a,b,'',+,#,$x} x QoS x NoLocal x RAP x subscription id, both delivery modes, publishes from "
        "clients and the Publisher API, every op run to exact quiescence; compared with the Lean broker model after canonicalising "
        "broker-chosen packet ids and the order of copies in one burst; the Python predicate recomputes the expected copies with an "
        "independent MQTT 4.7 matcher; stream broker-concurrent: 2-4 connections send 2-12 PUBLISH packets at the same moment (one goroutine each, "
        "4 Ps), every subscriber must receive exactly the expected copies and each publisher's messages in the order sent. "
        "non-trivial = a client receives >= 2 copies in one step, or NL/RAP/sub-id present and traffic flows")
ASSUME = ["deliverMessage runs under server.mu (atomic step)", "quiescence detection by goroutine states (harness/internal/wire)",
          "all subscribers online with large windows in this stream (offline / flow control: C03, C05)"]
