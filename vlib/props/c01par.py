"""C01 (wire part, concurrent publishers) — several connections publish at the same moment. Every subscriber still gets
exactly the copies its subscriptions ask for, and the messages of one publisher reach it in the order they were sent."""
import collections
from .. import core, wire
from . import c01

FILTERS = ["t/a", "t/+", "t/#", "#", "+/a", "u/a", "t/b"]
TOPICS = ["t/a", "t/b", "u/a", "t"]

def gen(rng):
    mode = rng.choice(["overlap", "onlyonce"])
    ops = [f"new mode={mode} mi=1000 maxq=5000"]
    pubs = ["p1", "p2", "p3", "p4"][:rng.choice([2, 3, 4])]
    subs = ["s1", "s2", "s3"][:rng.choice([1, 2, 3])]
    for c in pubs:
        ops.append(f"conn {c} c{c} v={rng.choice([4, 5])} cs=1")
    pid = 0
    for c in subs:
        v = rng.choice([4, 5])
        ops.append(f"conn {c} c{c} v={v} cs=1")
        fs = rng.sample(FILTERS, rng.choice([1, 1, 2, 3]))
        pid += 1
        ops.append(f"sub {c} {pid} " + " ".join(f"{f}|{rng.choice([0, 1, 2])}" for f in fs))
    if rng.random() < 0.3:          # a publisher that also subscribes (receives its own and the others' messages)
        pid += 1
        ops.append(f"sub {pubs[0]} {pid} {rng.choice(FILTERS)}|{rng.choice([0, 1, 2])}")
    seq = collections.Counter()
    for _ in range(rng.randint(1, 5)):
        toks, rels = [], []
        for _ in range(rng.randint(2, 12)):
            c = rng.choice(pubs)
            seq[c] += 1; pid += 1
            q = rng.choice([0, 1, 1, 2])
            toks.append(f"{c},{rng.choice(TOPICS)},{q},{pid if q else 0},{c}n{seq[c]}")
            if q == 2: rels.append((c, pid))
        ops.append("cpub " + " ".join(toks))
        for c, i in rels:
            ops.append(f"rel {c} {i}")
        for s in subs + pubs[:1]:
            ops += [f"ack {s} puback all", f"ack {s} pubrec all", f"ack {s} pubcomp all"]
    return ops

def predicate(ops, out):
    if len(out) != len(ops) or (out and out[0].startswith("CRASH")):
        return "implementation crashed or hung: " + (out[0] if out else "")
    mode = "onlyonce"
    t = c01.Table()
    last = {}            # (subscriber cid, publisher) -> last sequence number seen
    for op, line in zip(ops, out):
        f = op.split()
        pre, conns = wire.parse_line(line)
        if "HANG" in line:
            return f"broker did not become quiescent after `{op}`"
        if f[0] == "new":
            mode = next((x[5:] for x in f if x.startswith("mode=")), "onlyonce")
        elif f[0] == "conn":
            t.cid[f[1]] = f[2]; t.ver[f[1]] = int(next((x[2:] for x in f if x.startswith("v=")), "4")); t.subs.setdefault(f[2], {})
        elif f[0] == "sub":
            for tp in f[3:]:
                ps = tp.split("|")
                t.subs[t.cid[f[1]]][ps[0]] = dict(qos=int(ps[1]), nl=False, rap=False, id=0)
        elif f[0] == "cpub":
            want = collections.defaultdict(collections.Counter)     # cid -> Counter((tag, qos))
            acks = collections.defaultdict(list)
            for tk in f[1:]:
                c, topic, q, pid, tag = tk.split(",")
                if int(q):
                    acks[c].append(("puback(" if q == "1" else "pubrec(") + pid + ",")
                for cid, copies in c01.expected_copies(mode, t, t.cid[c], topic, int(q), 0).items():
                    for (wq, _wr, _sid) in copies:
                        want[cid][(tag, wq)] += 1
            for c, w in acks.items():
                got = [x for x in conns.get(c, ([], []))[0] if x.startswith(("puback(", "pubrec("))]
                if len(got) != len(w) or any(not g.startswith(x) for g, x in zip(got, w)):
                    return f"`{op[:60]}…`: publisher {c} was acknowledged {got}, expected in order {w}"
            got = collections.defaultdict(collections.Counter)
            for name, (h, p) in conns.items():
                cid = t.cid.get(name, name)
                for x in p:
                    pf = wire.pub_fields(x)
                    if pf is None:
                        continue
                    if pf["d"] != 0:
                        return f"`{op[:60]}…`: first delivery to {cid} carries DUP=1"
                    got[cid][(pf["tag"], pf["q"])] += 1
                    src, n = pf["tag"].split("n")
                    n = int(n)
                    if n < last.get((cid, src), 0):
                        return (f"`{op[:60]}…`: {cid} received message {n} of publisher {src} after its message "
                                f"{last[(cid, src)]}: the order of one publisher's messages is not kept")
                    last[(cid, src)] = n
            for cid in set(want) | set(got):
                if got[cid] != want[cid]:
                    extra, missing = got[cid] - want[cid], want[cid] - got[cid]
                    return f"`{op[:60]}…`: {cid} received unexpected {dict(extra)}, is missing {dict(missing)}"
    return None

def nontrivial(ops, out):
    """a subscriber receives messages of >= 2 publishers in one burst"""
    for op, line in zip(ops, out):
        if op.startswith("cpub "):
            _, conns = wire.parse_line(line)
            for name, (h, p) in conns.items():
                srcs = {wire.pub_fields(x)["tag"].split("n")[0] for x in p if wire.pub_fields(x)}
                if len(srcs) >= 2:
                    return True
    return False

def stream(tier):
    n = 300 if tier == "quick" else 10000
    return (core.Stream("broker-concurrent", "broker", gen, predicate, nontrivial, canon=wire.canon, keep_prefix=1), n)
