"""C02 — subscription index (persistence/subscription/mem) answers = MQTT 4.7 matching after any history; TopicMatch scanner.

Streams
  substore        random histories over sub/unsub/unsuball + every kind of Iterate query, stats (valid names only)
  substore-shared the same machinery biased to shared subscriptions (also the store-level stream of C11)
  substore-odd    syntactically odd filters / names / topics (a/#/b, a+, $share/g, wildcard levels in topic names): no crash;
                  answers for odd FILTERS are still checked (a level is a wildcard only if it is exactly + or #, a non-final
                  # never matches); answers for odd TOPIC names are compared model-vs-code only
  topicmatch      packets.TopicMatch byte scanner against an independent Python matcher (see c02_topicmatch.py)

The predicate is an independent Python reference of the PROPERTY (a dict keyed by (client, share, filter) and a
level-wise MQTT 4.7 matcher), evaluated on what the real code printed. It is exported for c11.py.
"""
from .. import core

PROP = "C02"
MODULE = "GmqttVerif.Properties.C02"
NS = "GmqttVerif.SubStore."
THEOREMS = [NS + n for n in ["substore_refines_map", "substore_rel", "substore_abs_eq_map", "iterate_all_exact",
                             "matchTopic_exact", "matchTopic_exact_nonshared", "find_exact", "client_listing_exact",
                             "stats_exact"]]
COMPS = ["substore"]

CLIENTS = ["c1", "c2", "c3", "c4"]
GROUPS = ["g1", "g2"]

# ------------------------------------------------------------------ independent reference (the property)

def split_topic(full):
    """subscription.SplitTopic as documented: $share/<group>/<filter>"""
    if full.startswith("$share/"):
        parts = full.split("/", 2)
        if len(parts) < 3:
            return "", ""
        return parts[1], parts[2]
    return "", full

def levels_match(fl, tl):
    """MQTT 4.7 on level lists, written from the standard (not from the code)."""
    i = 0
    while i < len(fl):
        f = fl[i]
        if f == "#":
            return i == len(fl) - 1          # '#' must be last; matches the rest, also nothing (parent)
        if i >= len(tl):
            return False
        if f != "+" and f != tl[i]:
            return False
        i += 1
    return i == len(tl)

def mqtt_match(filt, topic):
    fl, tl = filt.split("/"), topic.split("/")
    if topic.startswith("$") and fl[0] in ("+", "#"):
        return False                          # [MQTT-4.7.2-1]
    return levels_match(fl, tl)

def klass(share, filt):
    """IterationType bit of an entry: 2 = Shared, 1 = SYS ('$' filter), 4 = NonShared"""
    if share:
        return 2
    return 1 if filt.startswith("$") else 4

def fmt(c, sub):
    share, filt, qos, nl, rap, rh, sid = sub
    return f"{c},{share or '-'},{filt},{qos},{nl},{rap},{rh},{sid}"

def render(entries):
    es = sorted(entries)
    return (f"n={len(es)} " + ";".join(es)).strip()

def topic_is_plain(t):
    return t != "" and all(l not in ("+", "#") for l in t.split("/"))

class Ref:
    """the abstract store: a finite map, nothing else"""
    def __init__(self):
        self.m = {}            # (client, share, filter) -> sub tuple
        self.total = 0
        self.ctotal = {}       # client -> total (exists iff the client ever subscribed)
    def expect(self, f):
        """expected output line for op f (list of tokens); None = the property does not constrain this op"""
        op = f[0]
        if op == "new":
            self.__init__(); return "ok"
        if op == "sub":
            c, share, filt = f[1], ("" if f[2] == "-" else f[2]), f[3]
            key = (c, share, filt)
            existed = key in self.m
            self.m[key] = (share, filt, int(f[4]), int(f[5]), int(f[6]), int(f[7]), int(f[8]))
            self.ctotal.setdefault(c, 0)
            if not existed:
                self.total += 1; self.ctotal[c] += 1
            return "ok existed" if existed else "ok new"
        if op == "unsub":
            share, filt = split_topic(f[2])
            self.m.pop((f[1], share, filt), None)
            return "ok"
        if op == "unsuball":
            for k in [k for k in self.m if k[0] == f[1]]:
                del self.m[k]
            return "ok"
        if op == "cmatch":
            # concurrent lookups: each must answer what it answers alone
            parts = [self.expect(["match", f[1], t]) for t in f[2].split(",")]
            return None if any(p is None for p in parts) else " | ".join(parts)
        if op == "match":
            ty, topic = int(f[1]), f[2]
            if not topic_is_plain(topic):
                return None
            cl = f[3] if len(f) > 3 else None
            return render(fmt(k[0], s) for k, s in self.m.items()
                          if klass(k[1], k[2]) & ty and (cl is None or k[0] == cl) and mqtt_match(k[2], topic))
        if op == "get":
            ty, name = int(f[1]), f[2]
            cl = f[3] if len(f) > 3 else None
            out = []
            for k, s in self.m.items():
                if cl is not None and k[0] != cl:
                    continue
                kl = klass(k[1], k[2])
                if not kl & ty:
                    continue
                if kl == 2:
                    if name.startswith("$share/") and split_topic(name) == (k[1], k[2]) and k[2] != "":
                        out.append(fmt(k[0], s))
                elif k[2] == name:
                    out.append(fmt(k[0], s))
            return render(out)
        if op == "client":
            ty = int(f[2])
            return render(fmt(k[0], s) for k, s in self.m.items() if k[0] == f[1] and klass(k[1], k[2]) & ty)
        if op == "all":
            ty = int(f[1])
            return render(fmt(k[0], s) for k, s in self.m.items() if klass(k[1], k[2]) & ty)
        if op == "stats":
            return f"total={self.total} current={len(self.m)}"
        if op == "cstats":
            if f[1] not in self.ctotal:
                return "noclient"
            return f"total={self.ctotal[f[1]]} current={sum(1 for k in self.m if k[0] == f[1])}"
        if op == "split":
            g, t = split_topic(f[1])
            return f"{g or '-'} {t or '-'}"
        return None

def classify(ops, i, got, want):
    """which documented finding of the unchanged tree a failing answer looks like (tag in the reason text, used by RECOGNISERS)"""
    f = ops[i].split(" ")
    if got.startswith("panic"):
        if f[0] == "get" and f[2].startswith("$share/") and len(f[2].split("/", 2)) < 3:
            return "substore-matchname-panic"
        return "unclassified"
    if f[0] == "match" and f[2].startswith("$") and want is not None:
        extra = set(got.split(" ", 1)[1].split(";") if " " in got else []) - set(want.split(" ", 1)[1].split(";") if " " in want else [])
        if extra and all(e.split(",")[1] != "-" and e.split(",")[2].split("/")[0] in ("+", "#") for e in extra):
            return "substore-shared-dollar-topic"
    if f[0] == "sub" and f[2] != "-" and got == "ok existed" and want == "ok new":
        return "F20"
    shared = {}           # client -> {filter -> set(groups)} as subscribed so far (never pruned: a heuristic)
    f19 = f20 = False
    for op in ops[:i + 1]:
        g = op.split(" ")
        if g[0] == "sub" and g[2] != "-":
            d = shared.setdefault(g[1], {}).setdefault(g[3], set())
            d.add(g[2])
            if len(d) > 1:
                f20 = True
        elif g[0] == "unsuball" and shared.get(g[1]):
            f19 = True
    return "F19" if f19 else "F20" if f20 else "unclassified"

def predicate(ops, out):
    """the property on the implementation's outputs: every answer equals the reference map's answer"""
    if len(out) != len(ops) or (out and out[0].startswith("CRASH")):
        return "implementation crashed or hung: " + (out[0] if out else "")
    ref = Ref()
    for i, (op, o) in enumerate(zip(ops, out)):
        f = op.split(" ")
        if o.startswith("panic"):
            return f"[{classify(ops, i, o, None)}] panic in `{op}`"
        if o in ("err", "bad-op"):
            return f"unexpected result `{o}` for `{op}`"
        want = ref.expect(f)
        if want is not None and want != o:
            return f"[{classify(ops, i, o, want)}] `{op}` answered `{o}`; the stored subscriptions say `{want}`"
        if want is None and f[0] == "match" and f[2].startswith("$") and " " in o:
            # odd topic name (wildcard characters): only [MQTT-4.7.2-1] is demanded
            bad = [e for e in o.split(" ", 1)[1].split(";") if e.split(",")[2].split("/")[0] in ("+", "#")]
            if bad:
                return (f"[substore-shared-dollar-topic] `{op}` returned {bad[0]}: a filter starting with a wildcard "
                        "matched a topic starting with $")
    return None

def predicate_odd(ops, out):
    """odd names: the property only demands that nothing crashes; answers are compared model-vs-code"""
    if len(out) != len(ops) or (out and out[0].startswith("CRASH")):
        return "implementation crashed or hung: " + (out[0] if out else "")
    for op, o in zip(ops, out):
        if o.startswith("panic") or o in ("err", "bad-op"):
            return f"`{op}` -> {o}"
    return None

# ------------------------------------------------------------------ generators

def gen_level(rng, first, wild=True):
    r = rng.random()
    if first and r < 0.12:
        return "$s"
    if wild and r < 0.30:
        return "+"
    if r < 0.40:
        return ""
    return rng.choice(["a", "a", "b"])

def gen_filter(rng, dollar=None):
    n = rng.choice([1, 1, 2, 2, 2, 3, 3, 4])
    lv = [gen_level(rng, i == 0) for i in range(n)]
    if dollar is True:
        lv[0] = "$s"
    if dollar is False and lv[0] == "$s":
        lv[0] = "a"
    if rng.random() < 0.3:
        if rng.random() < 0.5 and len(lv) > 1:
            lv[-1] = "#"
        else:
            lv.append("#")
    f = "/".join(lv)
    return f if f != "" else "a"

def variants(rng, f):
    """filters related to f: prefixes, extensions, wildcard substitutions"""
    lv = f.split("/")
    res = []
    if len(lv) > 1:
        res.append("/".join(lv[:rng.randint(1, len(lv) - 1)]))
    base = lv[:-1] if lv[-1] == "#" else lv
    res.append("/".join(base + [rng.choice(["a", "b", "", "+", "#"])]))
    res.append("/".join(base + ["#"]))
    j = rng.randrange(len(base)) if base else 0
    if base and not (j == 0 and base[0] == "$s"):
        res.append("/".join(base[:j] + ["+"] + base[j + 1:] + (["#"] if lv[-1] == "#" else [])))
    return [r for r in res if r != ""]

def topic_for(rng, f):
    """a topic name related to filter f"""
    lv = f.split("/")
    out = []
    for l in lv:
        if l == "#":
            out += [rng.choice(["a", "b", ""]) for _ in range(rng.choice([0, 0, 1, 2]))]
            break
        out.append(rng.choice(["a", "b", ""]) if l == "+" else l)
    r = rng.random()
    if r < 0.15 and len(out) > 1:
        out = out[:-1]
    elif r < 0.3:
        out.append(rng.choice(["a", "b", ""]))
    elif r < 0.4 and out:
        j = rng.randrange(len(out))
        if not (j == 0 and out[0] == "$s"):
            out[j] = rng.choice(["a", "b", ""])
    elif r < 0.45 and out and out[0] != "$s":
        out[0] = "$s"
    t = "/".join(out)
    return t if t != "" else rng.choice(["a", "/", "b"])

def sub_line(rng, c, share, f):
    return f"sub {c} {share or '-'} {f} {rng.randint(0, 2)} {rng.randint(0, 1)} {rng.randint(0, 1)} {rng.randint(0, 2)} {rng.choice([0, 0, 1, 7])}"

def full(share, f):
    return f"$share/{share}/{f}" if share else f

def gen_history(rng, p_shared, nmax=80, pool_mod=None):
    pool = []
    for _ in range(rng.choice([1, 2, 3])):
        f = gen_filter(rng)
        pool.append(f)
        pool += [v for v in variants(rng, f) if rng.random() < 0.7]
    if pool_mod:
        pool = pool_mod(rng, pool)
    ncl = rng.choice([1, 2, 3, 4])
    clients = CLIENTS[:ncl]
    live = []                  # (c, share, f) subscribed at some point, maybe removed
    ops = ["new"]
    qtypes = [7, 7, 7, 7, 4, 2, 1, 6, 5, 3]
    def query(k=None):
        k = k if k is not None else rng.random()
        ty = rng.choice(qtypes)
        f = rng.choice(pool)
        if k < 0.45:
            t = topic_for(rng, f)
            return f"match {ty} {t}" + (f" {rng.choice(clients)}" if rng.random() < 0.25 else "")
        if k < 0.65:
            sh = rng.choice(GROUPS) if rng.random() < p_shared else ""
            if live and rng.random() < 0.6:
                _, sh, f = rng.choice(live)
            return f"get {ty} {full(sh, f)}" + (f" {rng.choice(clients)}" if rng.random() < 0.3 else "")
        if k < 0.8:
            return f"client {rng.choice(clients)} {ty}"
        if k < 0.87:
            return f"all {ty}"
        if k < 0.95:
            return "stats"
        return f"cstats {rng.choice(CLIENTS)}"
    n = rng.choice([3, 10, 25, 50, nmax])
    for _ in range(rng.randint(1, n)):
        r = rng.random()
        if r < 0.38:
            if live and rng.random() < 0.3:
                c, sh, f = rng.choice(live)          # re-subscribe (possibly after removal), new options
                if rng.random() < 0.3:
                    c = rng.choice(clients)
            else:
                c, f = rng.choice(clients), rng.choice(pool)
                sh = rng.choice(GROUPS) if rng.random() < p_shared else ""
            ops.append(sub_line(rng, c, sh, f)); live.append((c, sh, f))
        elif r < 0.58:
            if live and rng.random() < 0.85:
                c, sh, f = rng.choice(live)
                if rng.random() < 0.15:
                    c = rng.choice(clients)
                if rng.random() < 0.1:
                    sh = rng.choice(GROUPS + [""])
            else:
                c, f = rng.choice(clients), rng.choice(pool)
                sh = rng.choice(GROUPS) if rng.random() < p_shared else ""
            ops.append(f"unsub {c} {full(sh, f)}")
            if rng.random() < 0.5:
                ops.append(query(rng.random() * 0.65))
        elif r < 0.65:
            ops.append(f"unsuball {rng.choice(clients)}")
            if rng.random() < 0.6:
                ops.append(query(rng.random() * 0.65))
        else:
            ops.append(query())
    # closing questions: everything that is stored must be found, counts must add up
    ops.append("all 7"); ops.append("stats")
    for c in clients:
        ops.append(f"client {c} 7"); ops.append(f"cstats {c}")
    for f in pool[:4]:
        ops.append(f"match 7 {topic_for(rng, f)}")
    # the same kind of lookup from several goroutines at once (readers share the store's read lock)
    ts = sorted({topic_for(rng, f) for f in pool[:6]} - {""})
    ts = [t for t in ts if topic_is_plain(t) and "," not in t and " " not in t]
    if len(ts) >= 2 and rng.random() < 0.5:
        ops.append(f"cmatch 7 {','.join(ts[:5])}")
    return ops

def gen(rng):
    return gen_history(rng, p_shared=rng.choice([0.0, 0.1, 0.25]))

def gen_shared(rng):
    return gen_history(rng, p_shared=rng.choice([0.6, 0.8, 0.95]), nmax=60)

ODD_FILTERS = ["a/#/b", "#/a", "a+", "+a", "a#", "a/+b/c", "#/#", "+/#/+", "a/b#", "$s/#/a", "#a/b", "a//#/"]
ODD_TOPICS = ["+", "#", "a/+", "a/#", "+/a", "a/+/b", "#/a", "a+", "a/b#", "$s/+", "$s/#"]

def gen_odd(rng):
    def mod(rng, pool):
        return pool + rng.sample(ODD_FILTERS, 3)
    ops = gen_history(rng, p_shared=0.2, nmax=40, pool_mod=mod)
    extra = []
    for _ in range(rng.randint(1, 6)):
        extra.append(f"match {rng.choice([7, 7, 4, 2, 1])} {rng.choice(ODD_TOPICS)}")
    extra += [f"split {s}" for s in rng.sample(["$share/g", "$share/", "$share//a", "$share/g/", "$share/g/a/b", "$sharex/g/a",
                                                "a/$share/g/b", "$share"], 3)]
    extra += [f"get {rng.choice([7, 2])} {s}" for s in rng.sample(["$share/g1", "$share/", "$share//a", "$share/g1/", "$share"], 2)]
    pos = rng.randint(1, len(ops))
    return ops[:pos] + extra + ops[pos:]

# ------------------------------------------------------------------ non-triviality

def prunes_then_queries(ops, out):
    """history in which an unsubscribe / unsubscribe-all removes the last subscription of a leaf filter
    (so the trie node is pruned) and a query follows"""
    live = {}
    pruned = False
    for op in ops:
        f = op.split(" ")
        if f[0] == "new":
            live, pruned = {}, False
        elif f[0] == "sub":
            live[(f[1], "" if f[2] == "-" else f[2], f[3])] = 1
        elif f[0] in ("unsub", "unsuball"):
            if f[0] == "unsub":
                sh, fl = split_topic(f[2])
                gone = [k for k in [(f[1], sh, fl)] if k in live]
            else:
                gone = [k for k in live if k[0] == f[1]]
            for k in gone:
                del live[k]
            for k in gone:
                shared = bool(k[1])
                rest = [x[2] for x in live if bool(x[1]) == shared and x[2].startswith("$") == k[2].startswith("$")]
                if not any(x == k[2] or x.startswith(k[2] + "/") for x in rest):
                    pruned = True
        elif pruned and f[0] in ("match", "get", "client", "all"):
            return True
    return False

def shared_leave_then_query(ops, out):
    """a member leaves a group that keeps another member (or stays member of another group on the same filter),
    and a shared query follows"""
    live = set()
    left = False
    for op in ops:
        f = op.split(" ")
        if f[0] == "new":
            live, left = set(), False
        elif f[0] == "sub" and f[2] != "-":
            live.add((f[1], f[2], f[3]))
        elif f[0] in ("unsub", "unsuball"):
            if f[0] == "unsub":
                sh, fl = split_topic(f[2])
                gone = [k for k in [(f[1], sh, fl)] if k in live]
            else:
                gone = [k for k in live if k[0] == f[1]]
            for k in gone:
                live.discard(k)
            for k in gone:
                if any(x[2] == k[2] for x in live):
                    left = True
        elif left and f[0] in ("match", "get", "client", "all") and int(f[2] if f[0] == "client" else f[1]) & 2:
            return True
    return False

# ------------------------------------------------------------------ wiring

def substore_streams(tier):
    q = tier == "quick"
    return [
        (core.Stream("substore", "substore", gen, predicate, prunes_then_queries, keep_prefix=1), 12000 if q else 400000),
        (core.Stream("substore-shared", "substore", gen_shared, predicate, shared_leave_then_query, keep_prefix=1),
         6000 if q else 200000),
        (core.Stream("substore-odd", "substore", gen_odd, predicate, None, keep_prefix=1), 2000 if q else 50000),
    ]

# ---- the redis wrapper (persistence/subscription/redis): redis first, in-memory index second; with injected backend faults

# ops in front of which a backend fault is injected. `sub` is NOT among them: (*sub).Subscribe pipelines its HSETs with
# Send/Flush and never reads the replies, so an error REPLY goes unnoticed there (findings/c02-redis-subscribe-ignores-reply.md);
# command failures are outside the quantifier of C02 / C09, so that is recorded as an observation and not demanded here.
MUTATING = ("unsub", "unsuball")
# …but a fault in front of a `sub` is still injected now and then (seed C02-6): the subscription is then live in memory and absent from
# redis — the state in which an UNSUBSCRIBE must still remove it from every lookup. No `reload` follows in such a case (redis and
# memory differ from then on, which is the recorded observation, not a violation).
FAULTABLE = MUTATING + ("sub",)

def gen_redis(rng):
    """a history as for the memory store, with `fault` (the next redis command fails) in front of some mutating ops and
    `reload` (a store re-initialised from redis must equal the live one) now and then"""
    ops = gen_history(rng, rng.choice([0.0, 0.3]), nmax=40)
    res = []
    subfaults = rng.random() < 0.3
    diverged = False
    for op in ops:
        w = op.split(" ")[0]
        if w in MUTATING and rng.random() < 0.15:
            res.append("fault")
        elif w == "sub" and subfaults and rng.random() < 0.2:
            res.append("fault")
            diverged = True
        res.append(op)
        if rng.random() < 0.06 and not diverged:
            res.append("reload")
    if not diverged:
        res.append("reload")
    return res

def hint_redis(ops, impl_out):
    """a mutating op that ran into the armed fault AND reported an error is marked `failed …` for the model (it must have
    changed nothing). An op that answered `ok` although a fault was armed issued no redis command (nothing to remove, say):
    the model then applies it like any other. The fault is disarmed after the op either way (the driver does the same)."""
    armed, res = False, []
    for i, op in enumerate(ops):
        w = op.split(" ")[0]
        if w == "fault":
            armed = True
        elif w in ("new", "reload"):
            armed = False
        elif w in FAULTABLE:
            if armed and impl_out is not None and i < len(impl_out) and impl_out[i] == "err":
                op = "failed " + op
            armed = False
        res.append(op)
    return res

def predicate_redis(ops, out):
    """as `predicate`, plus: an op that reports an error (its redis command failed) leaves every later answer as if it had not
    been issued; an op that reports success has taken effect; a store reloaded from redis equals the live one"""
    if len(out) != len(ops) or (out and out[0].startswith("CRASH")):
        return "implementation crashed or hung: " + (out[0] if out else "")
    ref = Ref()
    armed = failed_before = False
    for i, (op, o) in enumerate(zip(ops, out)):
        f = op.split(" ")
        if o.startswith("panic") or o == "bad-op":
            return f"`{op}` -> {o}"
        if f[0] == "fault":
            armed = True
            continue
        if f[0] == "reload":
            armed = False
            if o != "same":
                return f"the store re-initialised from redis differs from the live one: {o[:300]}"
            continue
        if f[0] in FAULTABLE:
            was_armed, armed = armed, False
            if o == "err":
                if not was_armed:
                    return f"unexpected result `err` for `{op}`"
                failed_before = True
                continue             # the reference map is NOT updated: nothing may have changed
        elif o == "err":
            return f"unexpected result `err` for `{op}`"
        want = ref.expect(f)
        if want is not None and want != o:
            return (f"[{classify(ops, i, o, want)}] `{op}` answered `{o}`; the stored subscriptions say `{want}`"
                    + (" (after an operation that reported a backend error and must have changed nothing)" if failed_before else ""))
    return None

class RedisSubStream(core.Stream):
    """implementation side = `drive_substore redis` (the wrapper over respfake); model side = the same oracle_substore"""
    def impl(self, cases):
        return core.run_parallel([core.drive_exe("substore"), "redis"], cases, timeout=self.timeout)

def streams(tier):
    res = substore_streams(tier)
    res.append((RedisSubStream("substore-redis", "substore", gen_redis, predicate_redis,
                               lambda ops, out: "err" in out and "same" in out, keep_prefix=1, hint=hint_redis),
                3000 if tier == "quick" else 80000))
    try:
        from . import c02_topicmatch as tm
        res.append((core.Stream("topicmatch", "topicmatch", tm.gen, tm.predicate, tm.nontrivial, keep_prefix=0),
                    tm.N_QUICK if tier == "quick" else tm.N_THOROUGH))
    except ImportError:
        pass
    return res

def _comps():
    try:
        from . import c02_topicmatch  # noqa: F401
        return ["substore", "topicmatch"]
    except ImportError:
        return ["substore"]

COMPS = _comps()
if "topicmatch" in COMPS:
    THEOREMS = THEOREMS + [NS + "topicMatch_total", NS + "topicMatch_bytes_spec"]

def _tag(t):
    return lambda info: info.get("kind") == "predicate" and (info.get("why") or "").startswith("[" + t + "]")

# recogniser names for known-findings.txt (`finding: property=C02 id=F19 match=f19_unsuball_shared …`); the lead decides
RECOGNISERS = {"f19_unsuball_shared": _tag("F19"), "f20_two_groups_one_filter": _tag("F20"),
               "shared_dollar_topic": _tag("substore-shared-dollar-topic"),
               "matchname_short_share_name": _tag("substore-matchname-panic")}

def run(r):
    return core.standard_run(r, __import__(__name__, fromlist=["x"]))

RULE = ("random histories (1-80 ops, 1-4 clients, 2 share groups, level alphabet {a,b,'',+,#,$s}, filter pools built from "
        "prefix/extension/wildcard variants) of Subscribe/Unsubscribe/UnsubscribeAll interleaved with Iterate in all four modes "
        "(MatchFilter, MatchName, per client, full) under all 7 type masks, GetStats, GetClientStats, on mem.NewStore() through its "
        "public API; each history runs on the real code and on the Lean model; the Python predicate recomputes every answer from a "
        "plain dict and a level-wise MQTT 4.7 matcher. non-trivial (substore) = distinct history that removes the last subscription "
        "of a leaf filter (node pruned) and queries afterwards; (substore-shared) = a member leaves a group whose filter keeps "
        "another shared entry and a shared query follows; topicmatch: see c02_topicmatch.RULE")
ASSUME = ["sync.RWMutex makes each Store method atomic (one model step per call)",
          "client ids non-empty; share names non-empty without '/', '+', '#' (guaranteed by packets.ValidV5Topic + SplitTopic); "
          "topic filters non-empty (ValidTopicFilter)",
          "Go map iteration order is not modelled (all answers are compared as sorted multisets)",
          "Subscribe/Unsubscribe with several arguments = the same calls one at a time (the loops share no state)",
          "the model mirrors mem AFTER the proposed fixes substore-shared-index (F19, F20), substore-shared-dollar-topic, "
          "substore-matchname-panic; the redis wrapper (persistence/subscription/redis) is driven over respfake by the stream substore-redis with injected command failures (error reply, command not executed)"]
