"""C02, stream `topicmatch` — the exported byte scanner packets.TopicMatch(topic, topicFilter) against MQTT 4.7.

`ref_match` is an independent implementation of the MQTT 4.7 matching relation written from the standard
(levels separated by '/', '+' = exactly one level (possibly empty), '#' = last level, any remainder including
the parent level; [MQTT-4.7.2-1]: a filter starting with a wildcard does not match a topic starting with '$').
It is NOT a transliteration of the Go scanner or of the Lean model.

line protocol:  tm <hex-topic> <hex-filter>  ->  true | false | panic      (`-` = the empty byte string)
"""

ALPHA = b"ab/+#$"

def hx(b):
    return b.hex() if b else "-"

def unhx(s):
    return b"" if s == "-" else bytes.fromhex(s)

def valid_topic(b):
    """a topic NAME: at least one byte, no wildcard characters [MQTT-4.7.3-1], [MQTT-4.7.1-1]"""
    return len(b) > 0 and b"+" not in b and b"#" not in b

def valid_filter(b):
    """a topic FILTER: at least one byte; '#' only as the whole last level; '+' only as a whole level
    [MQTT-4.7.3-1], [MQTT-4.7.1-2], [MQTT-4.7.1-3]"""
    if len(b) == 0:
        return False
    levels = b.split(b"/")
    for i, l in enumerate(levels):
        if l == b"+":
            continue
        if l == b"#":
            if i != len(levels) - 1:
                return False
            continue
        if b"+" in l or b"#" in l:
            return False
    return True

def ref_match(topic, filt):
    """MQTT 4.7: does topic filter `filt` match topic name `topic`? (meaningful for valid_topic / valid_filter inputs)"""
    tl = topic.split(b"/")
    fl = filt.split(b"/")
    if topic[:1] == b"$" and fl[0] in (b"+", b"#"):
        return False                       # [MQTT-4.7.2-1]
    multi = fl[-1] == b"#"
    if multi:
        fl = fl[:-1]                       # '#' stands for zero or more further levels
        if len(tl) < len(fl):
            return False
    elif len(tl) != len(fl):
        return False
    return all(f == b"+" or f == t for f, t in zip(fl, tl))

# ---------------------------------------------------------------- generator

def _level(rng):
    r = rng.random()
    if r < 0.12:
        return b""
    if r < 0.2:
        return b"$" + rng.choice([b"", b"a", b"b"])
    return bytes(rng.choice(b"ab") for _ in range(rng.choice([1, 1, 1, 2, 2, 3])))

def _topic(rng):
    n = rng.choice([1, 1, 2, 2, 3, 3, 4, 5])
    ls = [_level(rng) for _ in range(n)]
    if rng.random() < 0.15:
        ls[0] = b"$" + ls[0]
    return b"/".join(ls)

def _derive_filter(rng, topic):
    """a filter related to `topic`: levels replaced by + / #, truncated, extended, slightly perturbed"""
    ls = topic.split(b"/")
    r = rng.random()
    if r < 0.12:
        ls = ls[:rng.randint(0, len(ls))]                      # truncate (maybe to nothing)
    elif r < 0.24:
        ls = ls + [rng.choice([b"", b"a", b"+", b"#", b"+", b"#"])]   # extend by one level
    elif r < 0.30:
        ls = ls + [b"+", b"#"]
    elif r < 0.34:
        ls = ls + [b"", b"#"]
    for i in range(len(ls)):
        q = rng.random()
        if q < 0.3:
            ls[i] = b"+"
        elif q < 0.36:
            ls[i] = _level(rng)                                # a different literal
        elif q < 0.40 and ls[i]:
            ls[i] = ls[i][:-1]                                 # proper prefix of the level
        elif q < 0.44:
            ls[i] = ls[i] + rng.choice([b"a", b"b"])           # level is a proper prefix of the filter level
    q = rng.random()
    if q < 0.3:
        k = rng.randint(0, len(ls))
        ls = ls[:k] + [b"#"]
    elif q < 0.33 and ls:
        ls[rng.randrange(len(ls))] = b"#"                      # '#' possibly in the middle: invalid filter
    elif q < 0.36 and ls:
        i = rng.randrange(len(ls))
        ls[i] = ls[i] + rng.choice([b"+", b"#"])               # wildcard glued to a literal: invalid filter
    return b"/".join(ls)

def _raw(rng):
    r = rng.random()
    if r < 0.2:
        return b""
    if r < 0.6:
        return bytes(rng.choice(ALPHA) for _ in range(rng.randint(1, 8)))
    return bytes(rng.randrange(256) for _ in range(rng.randint(1, 12)))

def gen(rng):
    ops = []
    for _ in range(50):
        r = rng.random()
        if r < 0.10:
            t, f = _raw(rng), _raw(rng)
        elif r < 0.14:
            t = _topic(rng); f = t                             # identical
        elif r < 0.17:
            f = _topic(rng); t = _derive_filter(rng, f)        # roles swapped: wildcard bytes inside the topic
        else:
            t = _topic(rng); f = _derive_filter(rng, t)
        ops.append(f"tm {hx(t)} {hx(f)}")
    return ops

# ---------------------------------------------------------------- predicate

def _parse(op):
    f = op.split()
    if len(f) != 3 or f[0] != "tm":
        return None
    try:
        return unhx(f[1]), unhx(f[2])
    except ValueError:
        return None

def predicate(ops, out):
    """the property on the implementation's outputs: never a panic; on valid (topic, filter) the MQTT 4.7 relation"""
    if len(out) != len(ops) or (out and out[0].startswith("CRASH")):
        return "implementation crashed or hung: " + (out[0] if out else "")
    for op, o in zip(ops, out):
        p = _parse(op)
        if p is None:
            return f"malformed op `{op}`"
        t, f = p
        if o == "panic":
            return f"TopicMatch({t!r}, {f!r}) panicked"
        if o not in ("true", "false"):
            return f"unexpected result `{o}` for `{op}`"
        if valid_topic(t) and valid_filter(f):
            want = ref_match(t, f)
            if (o == "true") != want:
                return f"TopicMatch(topic={t!r}, filter={f!r}) = {o}, MQTT 4.7 says {'true' if want else 'false'}"
    return None

def nontrivial(ops, out):
    """at least one valid pair that matches through a wildcard and one valid pair that does not match"""
    wild = miss = False
    for op in ops:
        p = _parse(op)
        if p is None:
            continue
        t, f = p
        if valid_topic(t) and valid_filter(f):
            if ref_match(t, f):
                if t != f and (b"+" in f or b"#" in f):
                    wild = True
            else:
                miss = True
    return wild and miss

N_QUICK = 2500
N_THOROUGH = 40000

RULE = ("stream topicmatch: 50 (topic, filter) byte-string pairs per case through the real packets.TopicMatch and the Lean model of "
        "the scanner loop, compared line by line on ALL inputs; pairs over {a,b,/,+,#,$} biased to related pairs (filter derived from "
        "the topic by replacing levels with +/#, truncating, extending by /+, /#, /+/#, //#, prefix/extension of a level, '$' first "
        "levels, empty levels), ~10% raw random bytes / empty strings, ~3% wildcard bytes inside the topic; predicate: never a panic, "
        "and for valid topic name x valid filter the result equals an independent Python implementation of MQTT 4.7 matching incl. "
        "[MQTT-4.7.2-1]. non-trivial = case with a valid pair matched through a wildcard and a valid pair that does not match")
