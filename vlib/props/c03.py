"""C03 — component level: packet id limiter (server/limiter.go over pkg/bitmap) against Model/Limiter.lean.
The wire-level streams of C03 (queue + limiter + handlers on a live connection) are added to `streams()` by their owner."""
import random, re
from .. import core

PROP = "C03"
MODULE = "GmqttVerif.Properties.C03"
THEOREMS = ["GmqttVerif.Limiter.poll_ids_nonzero_distinct_unmarked",
            "GmqttVerif.Limiter.poll_length",
            "GmqttVerif.Limiter.used_eq_marked",
            "GmqttVerif.Limiter.window_bound",
            "GmqttVerif.Limiter.release_frees",
            "GmqttVerif.Limiter.poll_takes_next_free",
            "GmqttVerif.Limiter.released_id_reusable",
            "GmqttVerif.Limiter.poll_terminates",
            "GmqttVerif.Limiter.used_eq_marked_Statement_false",
            "GmqttVerif.Limiter.window_bound_Statement_false",
            "GmqttVerif.Broker.outbound_ids_distinct",
            "GmqttVerif.Broker.stored_ids_distinct",
            "GmqttVerif.Broker.invariant_step",
            "GmqttVerif.Broker.window_bound",
            "GmqttVerif.Broker.window_closed",
            "GmqttVerif.Broker.window_bound_run",
            "GmqttVerif.Broker.pump_round_writes",
            "GmqttVerif.Broker.replay_on_resume",
            "GmqttVerif.Broker.first_send_dup0",
            "GmqttVerif.Broker.first_send_dup0_reachable",
            "GmqttVerif.Broker.reachable_msgs_inv",
            # the retransmission clause rests on the session queue keeping every handed-out entry until it is removed
            "GmqttVerif.Queue.replay_after_init", "GmqttVerif.Queue.exactly_one_place"]
# pkg/bitmap is not transcribed but TRANSLATED: Generated/BitmapT.lean is regenerated from bitmap.go on every run and proved equal
# to Model/Bitmap.lean (Properties/C03Translated.lean)
THEOREMS += ["GmqttVerif.C03Translated." + t for t in ("new_eq", "set_eq", "set_result", "get_eq", "size_eq")]
NEEDS_FACTS = ["BitmapT"]
EXTRA_MODULES = ['GmqttVerif.Properties.C03Broker', 'GmqttVerif.Properties.C10', 'GmqttVerif.Properties.C03Translated']
COMPS = ["limiter", "broker", "queue"]
MAXID = 65535


class Sim:
    """steering only (never used to judge): which ids are outstanding, where the cursor is."""
    def __init__(self, limit):
        self.limit, self.out, self.free, self.pending, self.closed = limit, set(), 1, None, False

    def _take(self, k):
        n = min(k, self.limit - len(self.out))
        got = []
        for _ in range(max(0, n)):
            if len(self.out) >= MAXID:
                break
            while self.free in self.out:
                self.free = 1 if self.free == MAXID else self.free + 1
            got.append(self.free); self.out.add(self.free)
            self.free = 1 if self.free == MAXID else self.free + 1
        return got

    def poll(self, k):
        if self.pending is not None or self.closed:
            return []
        if len(self.out) >= self.limit:
            self.pending = k
            return []
        return self._take(k)

    def wake(self):
        if self.pending is not None and (self.closed or len(self.out) < self.limit):
            k, self.pending = self.pending, None
            return [] if self.closed else self._take(k)
        return []


def ids_arg(ids):
    return ",".join(map(str, ids)) if ids else "-"


def gen_ops(rng, sim, n, ops, recent, ks, allow_bad=True):
    """append ~n random ops"""
    rel_w = rng.choice([0.25, 0.4, 0.55])
    for _ in range(n):
        r = rng.random()
        if r < 0.42:
            k = rng.choice(ks)
            got = sim.poll(k)
            recent.extend(got[-6:]); del recent[:-24]
            ops.append(f"poll {k}")
        elif r < 0.42 + rel_w:
            live = [x for x in recent if x in sim.out]
            if rng.random() < 0.6:
                if live and rng.random() < 0.8:
                    ident = rng.choice(live)
                elif sim.out and rng.random() < 0.6:
                    ident = min(sim.out) if rng.random() < 0.5 else max(sim.out)
                else:       # not outstanding: never handed out, already released, 0, maximum
                    ident = rng.choice([0, 1, 2, MAXID, rng.randint(0, MAXID)] + recent[-3:])
                sim.out.discard(ident)
                ops.append(f"release {ident}")
            else:
                ids = rng.sample(live, min(len(live), rng.choice([0, 1, 2, 3, 8]))) if live else []
                if rng.random() < 0.3:
                    ids = ids + [rng.choice([0, MAXID, rng.randint(0, 70)])]
                if ids and rng.random() < 0.15:
                    ids = ids + [ids[0]]                     # the same id twice in one batch
                sim.out.difference_update(ids)
                ops.append(f"brelease {ids_arg(ids)}")
            recent.extend(sim.wake()[-6:])
        elif r < 0.42 + rel_w + 0.08:
            # markUsedLocked: mostly within its contract (fresh ids that fit), as pollInflights uses it
            room = sim.limit - len(sim.out)
            bad = allow_bad and rng.random() < 0.12
            k = rng.choice([0, 1, 1, 2, 3])
            if not bad:
                k = min(k, max(room, 0))
            ids = []
            for _ in range(k):
                c = rng.choice([rng.randint(1, 12), rng.randint(1, MAXID), MAXID, sim.free, sim.free + 1 if sim.free < MAXID else 1])
                if c not in sim.out and c not in ids:
                    ids.append(c)
            if bad:
                pick = rng.random()
                if pick < 0.4 and sim.out:
                    ids.append(rng.choice(sorted(sim.out)[:5]))   # already marked
                elif pick < 0.6 and ids:
                    ids.append(ids[0])                            # twice in one call
                elif pick < 0.7:
                    ids.append(0)
            op = "marksig" if rng.random() < 0.3 else "mark"
            sim.out.update(i for i in ids if 0 <= i <= MAXID)
            recent.extend(ids[-3:])
            ops.append(f"{op} {ids_arg(ids)}")
            if op == "marksig":
                recent.extend(sim.wake()[-6:])
        elif r < 0.42 + rel_w + 0.10:
            ops.append("dump")
        elif r < 0.42 + rel_w + 0.105:
            sim.closed = True
            ops.append("close")
            sim.wake()
        else:
            k = rng.choice(ks)
            got = sim.poll(k)
            recent.extend(got[-6:]); del recent[:-24]
            ops.append(f"poll {k}")


def gen(rng):
    limit = rng.choice([1, 2, 3, 10, 65535, 1, 2, 3, 10, 65535, 0, 100])
    sim = Sim(limit)
    ops = [f"new {limit} {rng.choice([0, 1])}"]
    recent = []
    if rng.random() < 0.3:      # start like pollInflights: mark the in-flight ids of the resumed session
        k = rng.choice([1, 2, 3, 9])
        k = min(k, limit) if rng.random() < 0.9 else k
        ids = rng.sample(range(1, 15), k)
        sim.out.update(ids); recent.extend(ids)
        ops.append(f"mark {ids_arg(ids)}")
    ks = rng.choice([[1, 1, 1, 2], [1, 2, 3, 5], [0, 1, 3, 100], [5, 100, 100]] * 3 + [[1, 100, 65535]])
    full = limit == 65535 and rng.random() < 0.1
    # contract-violating marks are kept away from histories that can fill the whole id space: there they can wedge
    # the limiter (see SPIN_CASE), and a wedged limiter leaves a goroutine spinning in the driver process for good
    allow_bad = not (limit == 65535 and (full or 65535 in ks))
    if full:
        # nearly full id space: everything handed out, holes punched, cursor has wrapped to 1
        ops.append("poll 65535"); sim.poll(65535)
        holes = sorted(set(rng.choice([1, 2, 3, 100, 4096, 65534, 65535, rng.randint(1, MAXID)]) for _ in range(rng.randint(1, 6))))
        ops.append(f"brelease {ids_arg(holes)}"); sim.out.difference_update(holes); recent.extend(holes)
    gen_ops(rng, sim, rng.choice([4, 12, 30, 80]), ops, recent, ks, allow_bad)
    ops.append("dump")
    return ops


def gen_long(seed):
    """> 70 000 ids handed out with releases in between, so the cursor wraps past 65535 at least once"""
    rng = random.Random(f"c03-long-{seed}")
    limit = [10, 65535, 3, 65535][seed % 4]
    sim = Sim(limit)
    ops = [f"new {limit} {seed % 2}"]
    handed, fifo = 0, []
    stay = [7, 300][seed % 2]         # a few ids that are never released: the search must skip them after the wrap
    pinned = set()
    while handed < 72000:
        k = rng.choice([1, 1, 2, 5, 100]) if seed % 4 != 3 else 1
        got = sim.poll(k)
        ops.append(f"poll {k}")
        handed += len(got)
        for g in got:
            if len(pinned) < stay and rng.random() < 0.002 and limit > stay + 2:
                pinned.add(g)
            else:
                fifo.append(g)
        while len(sim.out) - len(pinned) > max(0, min(limit, 120) - rng.choice([1, 1, 2, 40])) or (sim.pending is not None and fifo):
            if len(fifo) >= 3 and rng.random() < 0.4:
                ids = [fifo.pop(0) for _ in range(rng.choice([2, 3]))]
                sim.out.difference_update(ids)
                ops.append(f"brelease {ids_arg(ids)}")
            elif fifo:
                i = fifo.pop(0 if rng.random() < 0.8 else rng.randrange(len(fifo)))
                sim.out.discard(i)
                ops.append(f"release {i}")
            else:
                break
            woke = sim.wake()
            handed += len(woke); fifo.extend(woke)
        if len(ops) > 400000:
            break
        if rng.random() < 0.0005:
            ops.append("dump")
    ops.append("dump")
    return ops


SPIN_CASE = ["new 65535 0", "poll 65535", "mark 0", "poll 1", "release 1", "dump"]   # used wraps to 0: the search never ends


def parse_ids(tok):
    return [int(x) for x in tok.split(",") if x] if tok not in ("-", "") else []


def parse_ranges(tok):
    s = set()
    for part in tok.split(","):
        if not part:
            continue
        if "-" in part:
            a, b = part.split("-"); s.update(range(int(a), int(b) + 1))
        else:
            s.add(int(part))
    return s


def predicate(ops, out):
    """C03 (limiter clauses) re-checked on what the real limiter reported. returns None or a reason.
    Clauses 1 (ids valid/fresh/distinct) and the bitmap/trace agreement are checked unconditionally; the `used`,
    window, blocking and termination clauses only while every `mark` so far respected the markUsedLocked contract
    (the hypotheses of used_eq_marked / window_bound / poll_terminates)."""
    if len(out) != len(ops) or (out and out[0].startswith("CRASH")):
        return "implementation crashed or hung: " + (out[0] if out else "")
    limit = int(ops[0].split()[1]) % 65536
    S = set()
    contract, fits, closed, pending = True, True, False, None
    for op, o in zip(ops, out):
        f, w = op.split(), o.split()
        if o in ("panic", "bad-op") or o.startswith("panic"):
            return f"`{op}` -> {o}"
        if f[0] == "new":
            continue
        if w[0] == "wedged" or "spin" in o:
            if contract:
                return f"`{op}` -> {o}: pollPacketIDs does not terminate although callers respected the contract"
            return None           # outside the hypotheses; nothing more is observable
        u = next((int(x[2:]) for x in w if x.startswith("u=")), None)
        if u is None:
            return f"`{op}` -> unparsable `{o}`"
        before = len(S)
        got = None
        if f[0] in ("release", "brelease"):
            ids = parse_ids(f[1]) if f[0] == "brelease" else [int(f[1])]
            S.difference_update(ids)
        elif f[0] in ("mark", "marksig"):
            ids = parse_ids(f[1])
            if len(set(ids)) != len(ids) or any(i < 1 or i > MAXID or i in S for i in ids):
                contract = False
            if len(S) + len(ids) > limit:
                fits = False
            S.update(ids)
        elif f[0] == "close":
            closed = True
        elif f[0] == "dump":
            marked = parse_ranges(w[0][len("marked="):])
            if marked != S:
                d = sorted(marked ^ S)[:6]
                return f"`{op}`: set bits differ from the ids handed out/marked and not released (first differences {d})"
        elif f[0] == "poll":
            if w[0] == "busy":
                if pending is None:
                    return f"`{op}` -> busy without a parked poll"
            elif w[0] == "blocked":
                if contract and not (len(S) >= limit and not closed):
                    return f"`{op}` parked although {len(S)} < limit {limit} ids are outstanding (or the limiter is closed)"
                pending = int(f[1])
            elif w[0] == "nil":
                if contract and not closed and int(f[1]) != 0 and len(S) < limit:
                    return f"`{op}` returned nothing although the window has room and the limiter is open"
            elif w[0].startswith("ids="):
                got = parse_ids(w[0][4:])
                if contract and (closed or len(got) != min(int(f[1]), limit - len(S))):
                    return f"`{op}` returned {len(got)} ids, expected min(max, limit-used) = {min(int(f[1]), limit - len(S))}"
            else:
                return f"`{op}` -> unparsable `{o}`"
        woke = next((x for x in w if x.startswith("woke:")), None)
        if woke:
            if pending is None:
                return f"`{op}` woke a poll although none was parked"
            if woke.startswith("woke:ids="):
                got = parse_ids(woke[9:])
                if contract and len(got) != min(pending, limit - len(S)):
                    return f"`{op}` woke a poll that returned {len(got)} ids, expected {min(pending, limit - len(S))}"
            pending = None
        elif pending is not None and contract and f[0] in ("release", "brelease", "marksig", "close") and (closed or len(S) < limit):
            return f"`{op}` left the parked poll waiting although the window has room (or the limiter is closed)"
        if got is not None:
            for i in got:
                if i == 0 or i > MAXID:
                    return f"`{op}` handed out invalid packet id {i}"
                if i in S:
                    return f"`{op}` handed out id {i} which is still outstanding"
            if len(set(got)) != len(got):
                return f"`{op}` handed out an id twice in one call: {got[:8]}"
            S.update(got)
        if contract:
            if u != len(S):
                return f"after `{op}` used={u} but {len(S)} ids are outstanding"
            if f[0] == "release" and (before - len(S)) not in (0, 1):
                return f"`{op}` changed the outstanding count by {before - len(S)}"
            if fits and len(S) > limit:
                return f"after `{op}` {len(S)} ids are outstanding > limit {limit}"
    return None


def nontrivial(ops, out):
    """an id is handed out a second time after its release (reuse), or a parked poll is woken and returns ids"""
    seen = set()
    for o in out:
        if "woke:ids=" in o:
            return True
        m = re.match(r"ids=([\d,]+)", o)
        if m:
            for i in m.group(1).split(","):
                if i in seen:
                    return True
                seen.add(i)
    return False


def gen_resume(rng):
    """queue store seen from C03: entries handed out (Read) and not yet removed must all come back, in order, from
    ReadInflight after a resuming Init - whatever is added to the (often full) queue between Init and ReadInflight,
    the window in which the broker's delivery path and the new connection's poll goroutine race."""
    from . import c10
    mx = rng.choice([1, 2, 3, 3, 4])
    ops = [f"new {mx} 0", f"init 1 {c10.BIG}", "readinflight 10"]
    tag = pid = 0
    for _round in range(rng.randint(1, 4)):
        for _ in range(rng.randint(1, mx + 1)):
            tag += 1; ops.append(f"add {tag} {rng.choice([1, 1, 2])} none 20")
        k = rng.randint(1, mx)
        ids = list(range(pid + 1, pid + 1 + k)); pid += k
        ops.append("read " + ",".join(map(str, ids)))
        for i in ids:
            r = rng.random()
            if r < 0.25: ops.append(f"remove {i}")
            elif r < 0.45: ops.append(f"replace {i}")
        for _ in range(rng.randint(0, 2)):          # queued while offline
            tag += 1; ops.append(f"add {tag} {rng.choice([0, 1, 2])} none 20")
        ops.append(f"init 0 {c10.BIG}")
        for _ in range(rng.randint(0, mx + 1)):      # routed to the client before the replay has started
            tag += 1; ops.append(f"add {tag} {rng.choice([1, 1, 2, 0])} none 20")
        ops.append(f"readinflight {rng.choice([1, 2, 10])}")
        if rng.random() < 0.5:
            tag += 1; ops.append(f"add {tag} 1 none 20")
        ops += ["readinflight 10", "readinflight 10"]
    ops += [f"init 0 {c10.BIG}", "readinflight 1000", "readinflight 1000",
            "read " + ",".join(str(i) for i in range(pid + 1, pid + 41))]
    return ops

def _queue_stream(tier):
    from . import c10
    return (core.Stream("queue-resume", "queue", gen_resume, c10.predicate, c10.nontrivial, keep_prefix=2),
            3000 if tier == "quick" else 100000)

def streams(tier):
    n = 7000 if tier == "quick" else 300000
    nlong = 4 if tier == "quick" else 16
    corpus = [gen_long(i) for i in range(nlong)]
    return [(core.Stream("limiter", "limiter", gen, predicate, nontrivial, keep_prefix=1, corpus=corpus, timeout=600), n),
            # own process: the wedged poll keeps spinning in the driver until it exits
            (core.Stream("limiter-wedge", "limiter", lambda rng: SPIN_CASE, predicate, None, keep_prefix=1, timeout=120), 1),
            _queue_stream(tier),
            _wire(tier)]

def _wire(tier):
    from . import c03wire
    return c03wire.stream(tier)

def _f07(info):
    from . import c03wire
    return c03wire.rec_f07(info)

RECOGNISERS = {"retransmission_ignores_new_receive_maximum": _f07}


def run(r):
    return core.standard_run(r, __import__(__name__, fromlist=["x"]))


RULE = ("random histories of new/poll/release/brelease/mark/marksig/close/dump on server.packetIDLimiter through the verif export "
        "(limits 0,1,2,3,10,100,65535; both constructors; poll sizes 0..65535; releases of outstanding, foreign, repeated ids, 0 and 65535; "
        "marks mostly inside the markUsedLocked contract, ~1% outside; full id space with holes; parked polls woken by release/close), "
        "plus long histories handing out > 72 000 ids so the cursor wraps past 65535 with pinned ids to skip, plus the 4-op history that wedges the limiter; "
        "every line compared with the Lean model (exact ids, used, freePid, set bits) and the Python predicate re-checks the theorems' claims on the "
        "implementation's outputs. non-trivial = distinct history in which an id is handed out again after its release, or a parked poll is woken and returns ids")
ASSUME = ["each limiter method is one atomic step (sync.Mutex); cond.Signal wakes the single parked pollPacketIDs, which re-evaluates its loop condition",
          "at most one goroutine polls a limiter (pollMessageHandler); a second poll while one is parked is not issued (`busy`)",
          "used/window/termination clauses are checked for histories whose mark ops respect the markUsedLocked contract (see findings/limiter-markused-unchecked.md)",
          "wire-level clauses of C03 (replay on resume, DUP, Receive Maximum on a live connection) are not covered by the `limiter` stream"]
