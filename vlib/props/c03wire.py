"""C03 (wire part) — outbound QoS 1/2: retransmission on resume, unique non-zero ids, bounded window."""
from .. import core, wire
from . import sessgen

def gen(rng):
    return sessgen.gen_session(rng, flow=True, wills=False)

def predicate(ops, out):
    if len(out) != len(ops) or (out and out[0].startswith("CRASH")):
        return "implementation crashed or hung: " + (out[0] if out else "")
    S = wire.Sessions()
    cfg_mi = 100
    rm = {}          # conn -> client's Receive Maximum
    for op, line in zip(ops, out):
        if "HANG" in line:
            return f"broker did not become quiescent after `{op}`"
        f0 = op.split()
        if f0[0] == "new":
            cfg_mi = int(next((x[3:] for x in f0 if x.startswith("mi=")), "100"))
        before = {c: list(S.unfinished(c)) for c in S.rx}
        f, pre, conns, acked = S.step(op, line)
        if S.collisions:
            cid, pf = S.collisions[0]
            other = [e for e in before.get(cid, []) if e.id == pf["id"]]
            return (f"`{op}`: new PUBLISH {pf['tag']} is sent with packet id {pf['id']} while {other} with the same id is still "
                    "awaiting acknowledgement")
        if f[0] == "conn":
            v5 = S.ver[f[1]] == 5
            rm[f[1]] = int(next((x[3:] for x in f if x.startswith("rm=")), "65535")) if v5 else 65535
        for name, (h, p) in conns.items():
            cid = S.cid.get(name, name)
            if f[0] == "conn" and f[1] == name:
                sp1 = any(x.startswith("connack(sp=1") for x in h)
                prev = before.get(cid, []) if sp1 else []
                # the replay must be exactly the unfinished entries, in original order, before anything new
                k = 0
                for x in p:
                    pf = wire.pub_fields(x)
                    is_rel = x.startswith("pubrel(")
                    if pf and pf["d"] == 0:
                        break
                    if k >= len(prev):
                        return f"`{op}`: retransmits {x} although nothing (more) is awaiting acknowledgement"
                    e = prev[k]; k += 1
                    if e.qos == 2 and e.acked:
                        if not is_rel or int(x[7:-1]) != e.id:
                            return f"`{op}`: expected PUBREL({e.id}) for {e.tag} (PUBREC was sent), got {x}"
                    else:
                        if is_rel or pf["id"] != e.id or pf["tag"] != e.tag or pf["d"] != 1 or pf["q"] != e.qos:
                            return f"`{op}`: expected DUP retransmission of {e.tag} with id {e.id}, got {x}"
                if sp1 and k < len(prev):
                    return f"`{op}`: session resumed but {prev[k:]} not retransmitted before new messages"
                rest = p[k:]
            else:
                rest = p
            for x in rest:
                pf = wire.pub_fields(x)
                if x.startswith("pubrel("):
                    return f"`{op}`: unexpected PUBREL on the poll stream: {x}"
                if pf is None or pf["q"] == 0:
                    continue
                if pf["d"] != 0:
                    return f"`{op}`: {pf['tag']} is sent for the first time with DUP=1"
                if pf["id"] == 0:
                    return f"`{op}`: QoS {pf['q']} PUBLISH with packet id 0"
            # ids pairwise distinct among everything awaiting PUBACK / PUBCOMP on this session
            unf = S.unfinished(cid)
            ids = [e.id for e in unf]
            if len(ids) != len(set(ids)):
                dup = [i for i in set(ids) if ids.count(i) > 1]
                return f"`{op}`: packet id {dup[0]} is used by two messages awaiting acknowledgement: {[e for e in unf if e.id == dup[0]]}"
            # window: unacknowledged QoS>0 PUBLISH on this connection (not on one that this very op displaced or closed:
            # what the session holds now was sent on its successor)
            if "closed" in h:
                continue
            limit = min(rm.get(name, 65535), cfg_mi)
            sent_here = [e for e in unf if not (e.qos == 2 and e.acked)]
            if len(sent_here) > limit:
                resumed = f[0] == "conn" and f[1] == name
                return (f"`{op}`: {len(sent_here)} unacknowledged QoS>0 PUBLISH on {name} exceed min(Receive Maximum {rm.get(name)}, "
                        f"max_inflight {cfg_mi}) = {limit}" + (" (retransmission on resume)" if resumed else ""))
    return None

def nontrivial(ops, out):
    """a resumed session (sp=1) that retransmits at least one message, or a window that fills"""
    for op, line in zip(ops, out):
        if op.startswith("conn") and "connack(sp=1" in line and (",d=1," in line or "pubrel(" in line):
            return True
    return False

def rec_f07(info):
    return info["kind"] == "predicate" and "(retransmission on resume)" in (info.get("why") or "")

def stream(tier):
    n = 500 if tier == "quick" else 15000
    return (core.Stream("broker-outbound", "broker", gen, predicate, nontrivial, canon=wire.canon, keep_prefix=1,
                        hint=wire.shared_hints), n)
