"""C04 — component level: the unack store (persistence/unack/mem) against Model/Unack.lean; the handler model
(Model/Inbound.lean, oracle `oracle_inbound`) is tied to publishHandler/pubrelHandler by the wire-level streams, which
their owner appends to `streams()`."""
import os, subprocess
from .. import core

PROP = "C04"
MODULE = "GmqttVerif.Properties.C04"
THEOREMS = ["GmqttVerif.Inbound.qos2_exactly_once",
            "GmqttVerif.Inbound.qos2_exactly_once_at",
            "GmqttVerif.Inbound.id_reusable_after_release",
            "GmqttVerif.Inbound.duplicate_not_delivered",
            "GmqttVerif.Inbound.acks_match",
            "GmqttVerif.Inbound.hook_rejection_not_recorded",
            "GmqttVerif.Broker.qos2_forward_iff",
            "GmqttVerif.Broker.publish_forwards_iff",
            "GmqttVerif.Broker.accepted_publish_is_tail",
            "GmqttVerif.Broker.pubrel_releases",
            "GmqttVerif.Broker.unack_refines_inbound",
            "GmqttVerif.Broker.qos2_exactly_once_broker",
            "GmqttVerif.Broker.qos2_refines_component"]
EXTRA_MODULES = ['GmqttVerif.Properties.C04Broker']
COMPS = ["unack", "broker"]


def gen(rng):
    """a word over set/remove/init on a small id pool: duplicates before Remove, reuse after it, interleaved ids,
    resumed (init 0) and clean (init 1) reconnects, removes of absent ids; then every pool id is probed with `set`."""
    pool = rng.choice([[1, 2, 3], [1, 2, 3], [1], [0, 1, 65535], [7, 8, 9, 10, 11, 12], [1, 2, 3, 65535, 32768]])
    ops = ["new"]
    if rng.random() < 0.8:
        ops.append("init 1")          # registerClient: new store, Init(true)
    w = rng.choice([[5, 3, 1], [4, 4, 1], [6, 2, 2], [3, 5, 1]])
    for _ in range(rng.choice([3, 8, 20, 50])):
        r = rng.random() * sum(w)
        if r < w[0]:
            ops.append(f"set {rng.choice(pool)}")
            if rng.random() < 0.3:
                ops.append(ops[-1])                       # retransmission
        elif r < w[0] + w[1]:
            ops.append(f"remove {rng.choice(pool) if rng.random() < 0.9 else rng.randint(0, 65535)}")
        else:
            ops.append(f"init {1 if rng.random() < 0.35 else 0}")
    ops += [f"set {i}" for i in pool]
    return ops


def predicate(ops, out):
    """store-level exactly-once: `set id` answers `new` iff the id has not been set since its last `remove`,
    the last `init 1` or the creation of the store. returns None or a reason."""
    if len(out) != len(ops) or (out and out[0].startswith("CRASH")):
        return "implementation crashed or hung: " + (out[0] if out else "")
    open_ids = set()
    for op, o in zip(ops, out):
        f = op.split()
        if o in ("panic", "bad-op", "err") or o.startswith("panic"):
            return f"`{op}` -> {o}"
        if f[0] == "new":
            open_ids = set()
        elif f[0] == "init":
            if f[1] == "1":
                open_ids = set()
        elif f[0] == "remove":
            open_ids.discard(int(f[1]) % 65536)
        elif f[0] == "set":
            i = int(f[1]) % 65536
            want = "exist" if i in open_ids else "new"
            if o != want:
                return (f"`{op}` answered {o}: " + ("a retransmission before PUBREL would be delivered again" if want == "exist"
                        else "a new message reusing a released id would be swallowed"))
            open_ids.add(i)
    return None


def nontrivial(ops, out):
    """some id is set twice without a remove in between (duplicate) and set again after a remove (reuse)"""
    state, dup, reuse = {}, set(), set()
    for op in ops[:-1]:
        f = op.split()
        if f[0] == "set":
            st = state.get(f[1])
            if st == "open":
                dup.add(f[1])
            elif st == "released":
                reuse.add(f[1])
            state[f[1]] = "open"
        elif f[0] == "remove" and state.get(f[1]) == "open":
            state[f[1]] = "released"
        elif op == "init 1":
            state = {}
    return bool(dup & reuse)


INBOUND_SELFTEST = [
    ("pub 2 1 0", "deliver ack:pubrec:1"), ("pub 2 2 0", "deliver ack:pubrec:2"), ("pub 2 1 1", "nodeliver ack:pubrec:1"),
    ("pub 1 1 0", "deliver ack:puback:1"), ("reset 0 5", "ok"), ("pub 2 1 1", "nodeliver ack:pubrec:1"),
    ("pubrel 1", "ack:pubcomp:1"), ("pub 2 1 0", "deliver ack:pubrec:1"), ("pubrel 3", "ack:pubcomp:3"),
    ("reset 1 3", "ok"), ("pub 2 2 1", "deliver ack:pubrec:2"), ("pub 0 0 0", "deliver"),
    ("reset 1 5", "ok"), ("pub 2 9 0 hook=err:135", "nodeliver ack:pubrec:9"), ("pub 2 9 0", "deliver ack:pubrec:9"),
    ("pub 2 9 0 hook=drop", "nodeliver ack:pubrec:9"),
]


def extra(r):
    """oracle_inbound (used by the wire-level harness) must build and speak its protocol: the history of the
    non-vacuity example in Properties/C04.lean must print the decisions proved there."""
    rc, out = core.build_lean(["oracle_inbound"], r.log)
    if rc != 0:
        r.violation("inbound-oracle-build", "# lake build oracle_inbound failed\n" + out[-3000:], False, "oracle_inbound does not build")
        return
    p = subprocess.run([core.oracle_exe("inbound")], input="".join(l + "\n" for l, _ in INBOUND_SELFTEST),
                       stdout=subprocess.PIPE, text=True, timeout=60)
    got = p.stdout.split("\n")[:-1]
    want = [w for _, w in INBOUND_SELFTEST]
    if got != want:
        body = "# oracle_inbound protocol self-test differs\n" + "\n".join(
            f"#   {l}  |  {g}  |  {w}" for (l, w), g in zip(INBOUND_SELFTEST, got + ["<missing>"] * len(want)))
        r.violation("inbound-oracle-selftest", body + "\n", False, "oracle_inbound self-test")
    r.cov["histogram"]["inbound-oracle-selftest"] = len(want)


def streams(tier):
    n = 10000 if tier == "quick" else 1000000
    from . import c04wire
    return [(core.Stream("unack", "unack", gen, predicate, nontrivial, keep_prefix=1), n), c04wire.stream(tier)]


def run(r):
    return core.standard_run(r, __import__(__name__, fromlist=["x"]))


RULE = ("random words over new/init/set/remove on persistence/unack/mem through its public API (id pools of 1-6 ids incl. 0, 32768, 65535; "
        "retransmissions, removes of absent ids, resumed and clean re-initialisation; every pool id probed at the end), executed by the real "
        "store and by the Lean model, compared line by line; the predicate re-checks store-level exactly-once on the implementation's answers. "
        "non-trivial = distinct word containing, for one id, a duplicate `set` before `remove` and a `set` after the `remove`")
ASSUME = ["publishHandler/pubrelHandler are represented by Model/Inbound.lean (read from server/client.go:987-1127); that tie is made at wire level, not by this stream",
          "paths of publishHandler that end the connection before the ack (retain not available, invalid topic alias, store error) are not modelled",
          "the redis unack backend is decided under C09 (F29)"]
