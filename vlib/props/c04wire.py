"""C04 (wire part) — inbound QoS 2 exactly-once; every QoS>0 packet gets its matching acknowledgement."""
from .. import core, wire

def gen(rng):
    ops = ["new mode=onlyonce rm=100", "conn s cs v=4 cs=1", "sub s 1 t/#|2"]
    v = rng.choice([4, 5])
    life = 1
    def connect(cs):
        nonlocal life
        name = f"p{life}"; life += 1
        ops.append(f"conn {name} cp v={v} cs={cs}" + (" se=300" if v == 5 else ""))
        return name
    cur = connect(rng.choice([0, 1]))
    tag = 0
    for _ in range(rng.randint(5, 25)):
        r = rng.random()
        if r < 0.5:
            tag += 1
            pid = rng.choice([1, 1, 2, 3])
            ops.append(f"pub {cur} t/a q=2 pid={pid} d={rng.choice([0, 0, 1])} tag=m{tag}")
        elif r < 0.75:
            ops.append(f"rel {cur} {rng.choice([1, 1, 2, 3])}")
        elif r < 0.85:
            tag += 1
            ops.append(f"pub {cur} t/a q=1 pid={rng.choice([1, 2, 3, 4])} tag=m{tag}")
        elif r < 0.93:
            # pipelining: the client stops reading, sends several packets, then reads all the answers at once
            ops.append(f"pause {cur}")
            for _ in range(rng.randint(2, 4)):
                k = rng.random()
                if k < 0.5:
                    ops.append(f"rel {cur} {rng.choice([1, 2, 3])}")
                elif k < 0.8:
                    tag += 1
                    ops.append(f"pub {cur} t/a q=2 pid={rng.choice([1, 2, 3])} d={rng.choice([0, 1])} tag=m{tag}")
                else:
                    tag += 1
                    ops.append(f"pub {cur} t/a q=1 pid={rng.choice([1, 2, 3, 4])} tag=m{tag}")
            ops.append(f"resume {cur}")
        else:
            ops.append(rng.choice([f"close {cur}", f"disc {cur}"]))
            cur = connect(rng.choice([0, 0, 0, 1]))
        ops.append("ack s puback all"); ops.append("ack s pubrec all"); ops.append("ack s pubcomp all")
    return ops

def predicate(ops, out):
    if len(out) != len(ops) or (out and out[0].startswith("CRASH")):
        return "implementation crashed or hung: " + (out[0] if out else "")
    open_ids = set()       # ids with a PUBLISH accepted and not yet released (trace-level spec)
    expiry = 0
    paused, owed = None, []          # connection that is not reading; acknowledgements it is owed, in order
    for op, line in zip(ops, out):
        if "HANG" in line:
            return f"broker did not become quiescent after `{op}`"
        f = op.split()
        kv = dict(x.split("=", 1) for x in f if "=" in x)
        pre, conns = wire.parse_line(line)
        got = [wire.pub_fields(x) for x in conns.get("s", ([], []))[1]]
        got = [g["tag"] for g in got if g]
        if f[0] == "conn" and f[2] == "cp":
            h = conns.get(f[1], ([], []))[0]
            if any(x.startswith("connack(sp=0") for x in h):
                open_ids = set()          # session reset
        elif f[0] == "pause":
            paused, owed = f[1], []
        elif f[0] == "resume":
            h = conns.get(f[1], ([], []))[0]
            acks = [x for x in h if x.startswith(("puback(", "pubrec(", "pubcomp("))]
            if len(acks) != len(owed) or any(not a.startswith(w) for a, w in zip(acks, owed)):
                return f"`{op}`: the pipelined packets must be answered by {owed} in this order, got {acks}"
            paused, owed = None, []
        elif f[0] == "pub" and f[1].startswith("p"):
            h = conns.get(f[1], ([], []))[0]
            pid, q, tag = kv["pid"], int(kv["q"]), kv["tag"]
            acks = [x for x in h if x.startswith(("puback(", "pubrec(", "pubcomp("))]
            if f[1] == paused:
                owed.append(f"pubrec({pid}," if q == 2 else f"puback({pid},")
                acks = [owed[-1]]
            if q == 2:
                if len(acks) != 1 or not acks[0].startswith(f"pubrec({pid},"):
                    return f"`{op}`: expected exactly one PUBREC({pid}), got {h}"
                first = pid not in open_ids
                open_ids.add(pid)
                if first and got != [tag]:
                    return f"`{op}`: first PUBLISH with id {pid} since its last PUBREL must be forwarded once, subscriber got {got}"
                if not first and got:
                    return f"`{op}`: retransmission of id {pid} before PUBREL was forwarded again: {got}"
            else:
                if len(acks) != 1 or not acks[0].startswith(f"puback({pid},"):
                    return f"`{op}`: expected exactly one PUBACK({pid}), got {h}"
                if got != [tag]:
                    return f"`{op}`: QoS 1 PUBLISH must be forwarded once, subscriber got {got}"
        elif f[0] == "rel":
            h = conns.get(f[1], ([], []))[0]
            if f[1] == paused:
                owed.append(f"pubcomp({f[2]})")
            elif [x for x in h if x.startswith(("puback(", "pubrec(", "pubcomp("))] != [f"pubcomp({f[2]})"]:
                return f"`{op}`: expected exactly one PUBCOMP({f[2]}), got {h}"
            open_ids.discard(f[2])
            if got:
                return f"`{op}`: PUBREL caused a delivery: {got}"
        elif got:
            return f"`{op}`: unexpected delivery {got}"
    return None

def nontrivial(ops, out):
    """a duplicate before PUBREL and a reuse after it"""
    seen, released, dup, reuse = set(), set(), False, False
    for op in ops:
        f = op.split()
        if f[0] == "pub" and "q=2" in op:
            pid = next(x[4:] for x in f if x.startswith("pid="))
            if pid in seen and pid not in released: dup = True
            if pid in released: reuse = True; released.discard(pid)
            seen.add(pid)
        elif f[0] == "rel":
            released.add(f[2])
    return dup and reuse

def stream(tier):
    n = 500 if tier == "quick" else 15000
    return (core.Stream("broker-inbound", "broker", gen, predicate, nontrivial, canon=wire.canon, keep_prefix=1,
                        hint=wire.shared_hints), n)
