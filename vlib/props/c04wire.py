"""C04 (wire part) — inbound QoS 2 exactly-once; every QoS>0 packet gets its matching acknowledgement."""
from .. import core, wire

def gen(rng):
    ops = ["new mode=onlyonce rm=100", "conn s cs v=4 cs=1", "sub s 1 t/#|2"]
    v = rng.choice([4, 5])
    life = 1
    def connect(cs):
        nonlocal life
        name = f"p{life}"; life += 1
        ops.append(f"conn {name} cp v={v} cs={cs}" + (" se=300" if v == 5 else ""))
        return name
    cur = connect(rng.choice([0, 1]))
    tag = 0
    if v == 4 and rng.random() < 0.12:
        # MANY identifiers open at once (a 3.1.1 publisher is not bound by a Receive Maximum; seed C04-6): 101–115 QoS 2 publishes
        # with distinct ids and no PUBREL, optionally a reconnect with Clean Session 0, then retransmissions of the oldest and the
        # newest ids (nothing may be forwarded twice), then the PUBRELs
        k = rng.randint(101, 115)
        sack = ["ack s puback all", "ack s pubrec all", "ack s pubcomp all"]
        tags = {}
        for i in range(k):
            tag += 1
            tags[1000 + i] = f"m{tag}"
            ops.append(f"pub {cur} t/a q=2 pid={1000 + i} d=0 tag=m{tag}")
            ops += sack
        if rng.random() < 0.5:
            ops.append(f"close {cur}")
            cur = connect(0)
        again = list(range(1000, 1000 + rng.randint(2, 6))) + list(range(1000 + k - rng.randint(1, 4), 1000 + k))
        rng.shuffle(again)
        for p in again:
            ops.append(f"pub {cur} t/a q=2 pid={p} d=1 tag={tags[p]}")
            ops += sack
        for p in sorted(tags):
            if rng.random() < 0.9:
                ops.append(f"rel {cur} {p}")
        ops += sack
        return ops
    for _ in range(rng.randint(5, 25)):
        r = rng.random()
        if r < 0.5:
            tag += 1
            pid = rng.choice([1, 1, 2, 3])
            ops.append(f"pub {cur} t/a q=2 pid={pid} d={rng.choice([0, 0, 1])} tag=m{tag}")
        elif r < 0.75:
            ops.append(f"rel {cur} {rng.choice([1, 1, 2, 3])}")
        elif r < 0.85:
            tag += 1
            ops.append(f"pub {cur} t/a q=1 pid={rng.choice([1, 2, 3, 4])} tag=m{tag}")
        elif r < 0.93:
            # pipelining: the client stops reading, sends several packets, then reads all the answers at once
            long_run = rng.random() < 0.35
            if long_run:
                # a long run (10-14) of retransmissions of ONE id that is open: the broker's write queue (8 slots) is full while
                # further PUBRECs are produced — every retransmission is owed its PUBREC, none may get lost (seed C04-5). Only
                # retransmissions: nothing is forwarded, so it does not matter when the broker gets round to the later packets.
                tag += 1
                ops.append(f"pub {cur} t/a q=2 pid=9 d=0 tag=m{tag}")
                ops.append("ack s puback all"); ops.append("ack s pubrec all"); ops.append("ack s pubcomp all")
            ops.append(f"pause {cur}")
            for _ in range(rng.randint(10, 14) if long_run else rng.randint(2, 4)):
                if long_run:
                    ops.append(f"pub {cur} t/a q=2 pid=9 d=1 tag=m{tag}")
                    continue
                k = rng.random()
                if k < 0.5:
                    ops.append(f"rel {cur} {rng.choice([1, 2, 3])}")
                elif k < 0.8:
                    tag += 1
                    ops.append(f"pub {cur} t/a q=2 pid={rng.choice([1, 2, 3])} d={rng.choice([0, 1])} tag=m{tag}")
                else:
                    tag += 1
                    ops.append(f"pub {cur} t/a q=1 pid={rng.choice([1, 2, 3, 4])} tag=m{tag}")
            ops.append(f"resume {cur}")
        elif r < 0.96:
            # a burst of QoS 2 publishes and the end of the connection reach the broker at once; the publisher resumes its
            # session and retransmits them (DUP=1): every message exactly once, whatever the broker had already handled when
            # it noticed the end (seed C04-4)
            k = rng.choice([3, 9, 12, 20])
            base = 100 + 30 * life
            burst = []
            for i in range(k):
                tag += 1
                burst.append((base + i, f"m{tag}"))
            ops.append(f"close {cur} burst=" + ",".join(f"{p}:{t}" for p, t in burst) + " q=2 topic=t/a")
            ops.append("ack s pubrec all"); ops.append("ack s pubcomp all")
            cur = connect(0)
            for p, t in burst:
                if rng.random() < 0.8:
                    ops.append(f"pub {cur} t/a q=2 pid={p} d=1 tag={t}")
                    if rng.random() < 0.7:
                        ops.append(f"rel {cur} {p}")
        else:
            ops.append(rng.choice([f"close {cur}", f"disc {cur}"]))
            cur = connect(rng.choice([0, 0, 0, 1]))
        ops.append("ack s puback all"); ops.append("ack s pubrec all"); ops.append("ack s pubcomp all")
    return ops

def predicate(ops, out):
    if len(out) != len(ops) or (out and out[0].startswith("CRASH")):
        return "implementation crashed or hung: " + (out[0] if out else "")
    open_ids = set()       # ids with a PUBLISH accepted and not yet released (trace-level spec)
    expiry = 0
    paused, owed = None, []          # connection that is not reading; acknowledgements it is owed, in order
    for op, line in zip(ops, out):
        if "HANG" in line:
            return f"broker did not become quiescent after `{op}`"
        f = op.split()
        kv = dict(x.split("=", 1) for x in f if "=" in x)
        pre, conns = wire.parse_line(line)
        got = [wire.pub_fields(x) for x in conns.get("s", ([], []))[1]]
        got = [g["tag"] for g in got if g]
        if f[0] == "conn" and f[2] == "cp":
            h = conns.get(f[1], ([], []))[0]
            if any(x.startswith("connack(sp=0") for x in h):
                open_ids = set()          # session reset
        elif f[0] == "pause":
            paused, owed = f[1], []
        elif f[0] == "resume":
            h = conns.get(f[1], ([], []))[0]
            acks = [x for x in h if x.startswith(("puback(", "pubrec(", "pubcomp("))]
            if len(acks) != len(owed) or any(not a.startswith(w) for a, w in zip(acks, owed)):
                return f"`{op}`: the pipelined packets must be answered by {owed} in this order, got {acks}"
            paused, owed = None, []
        elif f[0] == "pub" and f[1].startswith("p"):
            h = conns.get(f[1], ([], []))[0]
            pid, q, tag = kv["pid"], int(kv["q"]), kv["tag"]
            acks = [x for x in h if x.startswith(("puback(", "pubrec(", "pubcomp("))]
            if f[1] == paused:
                owed.append(f"pubrec({pid}," if q == 2 else f"puback({pid},")
                acks = [owed[-1]]
            if q == 2:
                if len(acks) != 1 or not acks[0].startswith(f"pubrec({pid},"):
                    return f"`{op}`: expected exactly one PUBREC({pid}), got {h}"
                first = pid not in open_ids
                open_ids.add(pid)
                if first and got != [tag]:
                    return f"`{op}`: first PUBLISH with id {pid} since its last PUBREL must be forwarded once, subscriber got {got}"
                if not first and got:
                    return f"`{op}`: retransmission of id {pid} before PUBREL was forwarded again: {got}"
            else:
                if len(acks) != 1 or not acks[0].startswith(f"puback({pid},"):
                    return f"`{op}`: expected exactly one PUBACK({pid}), got {h}"
                if got != [tag]:
                    return f"`{op}`: QoS 1 PUBLISH must be forwarded once, subscriber got {got}"
        elif f[0] == "close" and "burst" in kv:
            # the broker may stop taking packets in once it has found the connection dead (nothing of what it then ignores has
            # been acknowledged, the publisher retransmits): what it did handle is a PREFIX of the burst, forwarded once each in
            # order and remembered; the rest counts as never received
            items = [it.split(":") for it in kv["burst"].split(",")]
            tags = [t for _, t in items]
            if got != tags[:len(got)]:
                return f"`{op}`: the subscriber got {got}, which is not a prefix of the burst {tags}"
            for pid, _ in items[:len(got)]:
                open_ids.add(pid)
        elif f[0] == "rel":
            h = conns.get(f[1], ([], []))[0]
            if f[1] == paused:
                owed.append(f"pubcomp({f[2]})")
            elif [x for x in h if x.startswith(("puback(", "pubrec(", "pubcomp("))] != [f"pubcomp({f[2]})"]:
                return f"`{op}`: expected exactly one PUBCOMP({f[2]}), got {h}"
            open_ids.discard(f[2])
            if got:
                return f"`{op}`: PUBREL caused a delivery: {got}"
        elif got:
            return f"`{op}`: unexpected delivery {got}"
    return None

def nontrivial(ops, out):
    """a duplicate before PUBREL and a reuse after it"""
    seen, released, dup, reuse = set(), set(), False, False
    for op in ops:
        f = op.split()
        if f[0] == "pub" and "q=2" in op:
            pid = next(x[4:] for x in f if x.startswith("pid="))
            if pid in seen and pid not in released: dup = True
            if pid in released: reuse = True; released.discard(pid)
            seen.add(pid)
        elif f[0] == "rel":
            released.add(f[2])
    return dup and reuse

def hint(ops, impl_out):
    """shared-subscription hints + for a burst-close the number of publishes the broker had handled (read off the subscriber's part)"""
    ops = wire.shared_hints(ops, impl_out)
    res = []
    for op, line in zip(ops, impl_out):
        if op.startswith("close ") and " burst=" in op:
            _, conns = wire.parse_line(line)
            got = [g for g in (wire.pub_fields(x) for x in conns.get("s", ([], []))[1]) if g]
            op += f" done={len(got)}"
        res.append(op)
    return res + list(ops[len(res):])

def stream(tier):
    n = 500 if tier == "quick" else 15000
    return (core.Stream("broker-inbound", "broker", gen, predicate, nontrivial, canon=wire.canon, keep_prefix=1,
                        hint=hint), n)
