"""C05 — session lifecycle: resume iff it should; one connection per client id (wire level)."""
from .. import core, wire
from . import sessgen
from .c01 import mqtt_match

PROP = "C05"
MODULE = "GmqttVerif.Properties.C05"
THEOREMS = ["GmqttVerif.Broker.session_present_iff",
            "GmqttVerif.Broker.expiry_in_force",
            "GmqttVerif.Broker.disconnect_sets_deadline",
            "GmqttVerif.Broker.resume_keeps_state",
            "GmqttVerif.Broker.fresh_session_empty",
            "GmqttVerif.Broker.reachable_wellformed",
            "GmqttVerif.Broker.one_connection_per_id",
            "GmqttVerif.Broker.displaced_gets_nothing",
            "GmqttVerif.Takeover.takeover_exclusive",
            "GmqttVerif.Takeover.register_only_when_free",
            "GmqttVerif.Takeover.takeover_as_is_broken",
            "GmqttVerif.C05Source.takeover_check_under_mu"]
COMPS = ["broker"]
NEEDS_FACTS = ["MuHeld"]

def gen_termrace(rng):
    """TerminateSession of an ONLINE client while its connection takes 50-300 ms to wind down (OnClosed hook), and a CONNECT with
    the same client id inside that window: the new connection gets a fresh session that nothing ended — it keeps its
    subscriptions, receives, and is the one a later CONNECT finds (seed C05-4)"""
    ops = [f"new mode=onlyonce se=600 closedelay={rng.choice([50, 150, 300])}", "conn p cp v=5 cs=1", "sub p 1 w/#|1"]
    v = rng.choice([4, 5])
    se = " se=300" if v == 5 else ""
    ops.append(f"conn x1 cx v={v} cs={rng.choice([0, 1])}{se}")
    ops.append(f"sub x1 1 t/#|{rng.choice([0, 1])}")
    ops.append("api term cx nowait=1")
    ops.append(f"conn x2 cx v={v} cs=0{se}")
    ops.append(f"sub x2 2 t/a|{rng.choice([0, 1, 2])}")
    pid, tag = 10, 0
    for _ in range(rng.randint(1, 3)):
        tag += 1; pid += 1
        q = rng.choice([0, 1])
        ops.append(f"pub p t/a q={q} pid={pid if q else 0} tag=m{tag}")
        ops += ["ack x2 puback all", "ack x2 pubrec all", "ack x2 pubcomp all"]
    if rng.random() < 0.6:
        ops.append(rng.choice(["close x2", "disc x2"]))
        ops.append(f"conn x3 cx v={v} cs=0{se}")
        ops.append("ping x3")
    else:
        ops.append(f"conn x3 cx v={v} cs=0{se}")      # take-over of the survivor
        ops.append("ping x3")
    return ops

def gen(rng):
    if rng.random() < 0.08:
        return gen_termrace(rng)
    return sessgen.gen_session(rng, flow=False, wills=False)

def predicate(ops, out):
    if len(out) != len(ops) or (out and out[0].startswith("CRASH")):
        return "implementation crashed or hung: " + (out[0] if out else "")
    cfg_se = 7200
    CID = "cx"
    exists, online, expiry, elapsed = False, None, 0, 0    # online = current conn name
    subs = {}            # filter -> qos
    pending = []         # tags of QoS>0 messages accepted for the offline session
    dead = set()         # connection names that have been closed / displaced
    ver = {}
    for op, line in zip(ops, out):
        if "HANG" in line:
            return f"broker did not become quiescent after `{op}`"
        f = op.split()
        pre, conns = wire.parse_line(line)
        kv = dict(x.split("=", 1) for x in f if "=" in x)
        for name in conns:
            if name in dead and (conns[name][1] or [x for x in conns[name][0] if x != "closed"]):
                return f"`{op}`: packets {conns[name]} delivered to connection {name} after it was closed / displaced"
        if f[0] == "new":
            cfg_se = int(kv.get("se", 7200))
        elif f[0] == "conn" and f[2] == CID:
            name = f[1]
            v = int(kv.get("v", 4)); ver[name] = v
            cs = kv.get("cs", "1") == "1"
            h, p = conns.get(name, ([], []))
            ca = next((x for x in h if x.startswith("connack(")), None)
            if ca is None:
                return f"`{op}`: no CONNACK"
            sp = ca.startswith("connack(sp=1")
            if online is not None:
                # take-over: the older connection must be closed before the newer one is acknowledged
                oh = conns.get(online, ([], []))[0]
                if "closed" not in oh:
                    return f"`{op}`: older connection {online} of {CID} is still open when the newer CONNECT is acknowledged"
                dead.add(online)
                if expiry == 0:
                    exists = False
                online, elapsed = None, 0
            alive = exists and not (elapsed >= expiry)
            want = (not cs) and alive
            if sp != want:
                return (f"`{op}`: Session Present={int(sp)}, expected {int(want)} (session exists={exists}, expiry in force={expiry}s, "
                        f"offline for {elapsed}s, clean start={int(cs)})")
            if not want:
                subs, pending = {}, []
            # a resumed session delivers what was accepted for it while it was offline
            got = [wire.pub_fields(x) for x in p]
            got_tags = [g["tag"] for g in got if g]
            if want:
                for t in pending:
                    if t not in got_tags:
                        return f"`{op}`: session resumed but QoS>0 message {t} accepted while offline was not delivered"
            else:
                if got_tags:
                    return f"`{op}`: new session (Session Present=0) but messages {got_tags} delivered"
            pending = []
            exists, online, elapsed = True, name, 0
            if v == 5:
                expiry = min(int(kv["se"]), cfg_se) if "se" in kv else 0
            else:
                expiry = 0 if cs else cfg_se
        elif f[0] == "sub" and f[1] == online:
            h = conns.get(f[1], ([], []))[0]
            sa = next((x for x in h if x.startswith("suback(")), None)
            if sa:
                codes = sa[sa.index(",") + 1:-1].split("+")
                for tp, code in zip(f[3:], codes):
                    if int(code) < 128:
                        subs[tp.split("|")[0]] = int(code)
        elif f[0] == "pub" and f[1] == "p":
            topic, q, tag = f[2], int(kv.get("q", 0)), kv.get("tag")
            hit = [g for flt, g in subs.items() if mqtt_match(flt, topic)]
            if exists and hit:
                if online is not None:
                    p = conns.get(online, ([], []))[1]
                    if not any((wire.pub_fields(x) or {}).get("tag") == tag for x in p):
                        return f"`{op}`: {CID} is online with a matching subscription but did not receive {tag}"
                elif q > 0 and max(hit) > 0 and elapsed < expiry:
                    pending.append(tag)
            elif online is not None:
                p = conns.get(online, ([], []))[1]
                if any((wire.pub_fields(x) or {}).get("tag") == tag for x in p):
                    return f"`{op}`: {CID} received {tag} without a matching subscription in its session"
        elif f[0] in ("disc", "close") and f[1] == online:
            if f[0] == "disc" and ver.get(online) == 5 and "se" in kv:
                if not (expiry == 0 and int(kv["se"]) != 0):
                    expiry = int(kv["se"])
            dead.add(online)
            online, elapsed = None, 0
            if expiry == 0:
                exists, subs, pending = False, {}, []
        elif f[0] == "race":
            if line.strip() != f"alive=1 online={1 + 1}":     # + the publisher p
                return f"`{op}`: {line.strip()} — exactly one of the simultaneous connections must end up attached (and p)"
            # afterwards: session as left by the last survivor (closed by the harness)
            v = int(kv.get("v", 5))
            nexp = (min(int(kv.get("se", 300)), cfg_se) if v == 5 else cfg_se)
            alive = exists and not (elapsed >= expiry)
            if not alive:
                subs, pending = {}, []
            exists, online, expiry, elapsed = (nexp != 0), None, nexp, 0
            if not exists:
                subs, pending = {}, []
        elif f[0] == "api" and f[1] == "term" and f[2] == CID:
            if online is not None:
                dead.add(online)
            exists, online, subs, pending = False, None, {}, []
        elif f[0] == "api" and f[1] == "backdate" and f[2] == CID:
            if exists and online is None:
                elapsed += int(f[3])
        elif f[0] == "api" and f[1] == "expire":
            if exists and online is None and elapsed >= expiry:
                exists, subs, pending = False, {}, []
    return None

def nontrivial(ops, out):
    """a reconnect with Clean Start 0 after the session was offline, with simulated time passing, in both outcomes"""
    return any(o.startswith("api backdate") for o in ops) and sum(1 for o in ops if o.startswith("conn x")) >= 2

def streams(tier):
    n = 600 if tier == "quick" else 20000
    return [(core.Stream("broker-session", "broker", gen, predicate, nontrivial, canon=wire.canon, keep_prefix=1, hint=wire.shared_hints), n)]

def run(r):
    return core.standard_run(r, __import__(__name__, fromlist=["x"]))

RULE = ("wire histories of one client id: connect (v3.1.1/v5, clean start or not, session expiry absent/0/30/300/max), subscribe, publish "
        "while online/offline, DISCONNECT with/without new expiry, abrupt close, take-over by a second connection, TerminateSession, simulated "
        "passage of time (verif hook back-dates the stored session), sessionExpireCheck; CONNACK flags, replayed messages and subscription survival "
        "compared with the Lean broker model; the Python predicate tracks the specification's own clock. non-trivial = >= 2 connections of the "
        "client and simulated time passing")
ASSUME = ["time passes only through the back-dating hook (values are multiples of 10 s, real drift << 10 s)",
          "take-over races are exercised sequentially here; interleavings of simultaneous CONNECTs are covered by the Takeover model only"]
