"""C06 — packet codec (pkg/packets + message.go): total, bounded, round-trips, sizes exact, topic validity = MQTT 4.7.

This file contains an INDEPENDENT MQTT 3.1 / 3.1.1 / 5 encoder and strict decoder (written from the OASIS texts, not from
gmqtt) — the "independent codec" of the property. The predicate compares what the real Go code reported with it.
"""
import os, re
from .. import core

PROP = "C06"
MODULE = "GmqttVerif.Properties.C06"
_T1 = ["vbi_roundtrip", "vbi_range", "vbi_canonical_length", "vbi_decode_consumes_prefix", "u16_roundtrip", "u32_roundtrip",
       "u16_u32_reencode", "binary_roundtrip", "string_roundtrip", "utf8_validity_spec", "topic_name_validity_spec",
       "topic_filter_validity_spec", "v5_topic_validity_spec", "utf8_validity_orig_violated",
       "topic_filter_validity_orig_violated", "topic_name_validity_orig_violated"]
_T2 = ["prop_table_facts", "props_roundtrip", "props_roundtrip_will", "props_reencode_stable", "props_unpack_total_and_bounded"]
_T3 = ["decode_no_overread", "encode_decode", "decode_wf", "reencode_stable", "size_exact", "msg_size_exact'",
       "msg_size_exact_orig_violated", "alloc_proportional_violated", "alloc_proportional_partial"]
# regenerated tie (Properties/C06Tables.lean over Generated/Codec.lean, rewritten from pkg/packets/properties.go on every run)
_T4 = ["source_validProps_eq", "source_allowed_eq_model", "source_kindTable_eq", "source_switch_kinds", "source_dupcheck_fields",
       "source_validators", "source_inline_cases", "source_loop_shape", "source_helpers", "source_will_cases", "source_pack_order",
       "source_consts"]
THEOREMS = ["GmqttVerif.Codec." + t for t in _T1 + _T2 + _T3 + _T4]
COMPS = ["codec"]
NEEDS_FACTS = ["Codec"]
EXTRA_MODULES = ["GmqttVerif.Properties.C06Tables"]
# (packet type number, property id) pairs the generator exercises first: filled from the model-side search
# (oracle_codecfacts) when the regenerated tables differ from the model's
PRIORITY = []
FORCE = [None]

# ------------------------------------------------------------------ independent codec: primitives

class Bad(Exception):
    """malformed packet / protocol error according to the MQTT specification"""

class Refuse(Exception):
    """well-formed, but a server may legitimately refuse it while decoding (unsupported level, identifier rejected)"""

def vbi_enc(n):
    out = bytearray()
    while True:
        d = n % 128
        n //= 128
        if n > 0:
            d |= 128
        out.append(d)
        if n == 0:
            return bytes(out)

def vbi_dec_strict(data, pos):
    """MQTT 1.5.5 (v5) / 2.2.3 (v3.1.1) algorithm: at most four bytes. returns (value, newpos)"""
    mult, val = 1, 0
    for i in range(4):
        if pos >= len(data):
            raise Bad("vbi truncated")
        d = data[pos]; pos += 1
        val += (d & 127) * mult
        mult *= 128
        if d & 128 == 0:
            return val, pos
    raise Bad("vbi longer than four bytes")

NONCHAR = set(range(0xFDD0, 0xFDF0))

def utf8_status(b):
    """'ok' | 'bad' (MUST be rejected: ill-formed UTF-8, U+0000) | 'may' (1.5.4: receiver MAY treat as malformed)"""
    try:
        s = bytes(b).decode("utf-8", "strict")
    except UnicodeDecodeError:
        return "bad"
    st = "ok"
    for ch in s:
        c = ord(ch)
        if c == 0:
            return "bad"
        if c <= 0x1F or 0x7F <= c <= 0x9F or c in NONCHAR or (c & 0xFFFE) == 0xFFFE:
            st = "may"
    return st

def topic_name_status(b):
    """MQTT 4.7: a topic name is at least one character, well-formed UTF-8 without U+0000, no wildcard characters"""
    st = utf8_status(b)
    if st == "bad" or len(b) == 0:
        return "bad"
    if b"+" in b or b"#" in b:
        return "bad"
    return st

def topic_filter_status(b):
    """MQTT 4.7.1: level-wise; '+' alone in its level, '#' alone in its level and last"""
    st = utf8_status(b)
    if st == "bad" or len(b) == 0:
        return "bad"
    levels = bytes(b).split(b"/")
    for i, lv in enumerate(levels):
        if b"#" in lv and (lv != b"#" or i != len(levels) - 1):
            return "bad"
        if b"+" in lv and lv != b"+":
            return "bad"
    return st

def v5_filter_status(b):
    """MQTT 5 4.8.2: $share/{ShareName}/{filter}: ShareName at least one character, without '/', '+', '#'"""
    b = bytes(b)
    if b.startswith(b"$share/"):
        st = utf8_status(b)
        if st == "bad":
            return "bad"
        rest = b[7:]
        i = rest.find(b"/")
        if i <= 0:
            return "bad"
        name = rest[:i]
        if b"+" in name or b"#" in name:
            return "bad"
        st2 = topic_filter_status(rest[i + 1:])
        return "bad" if st2 == "bad" else ("may" if "may" in (st, st2) else "ok")
    return topic_filter_status(b)

class R:
    def __init__(self, data, pos=0, end=None):
        self.d, self.p, self.e = data, pos, len(data) if end is None else end
        self.may = False
    def left(self):
        return self.e - self.p
    def u8(self):
        if self.left() < 1: raise Bad("short")
        v = self.d[self.p]; self.p += 1; return v
    def u16(self):
        if self.left() < 2: raise Bad("short")
        v = (self.d[self.p] << 8) | self.d[self.p + 1]; self.p += 2; return v
    def u32(self):
        if self.left() < 4: raise Bad("short")
        v = int.from_bytes(self.d[self.p:self.p + 4], "big"); self.p += 4; return v
    def bin(self):
        n = self.u16()
        if self.left() < n: raise Bad("short")
        v = bytes(self.d[self.p:self.p + n]); self.p += n; return v
    def str(self):
        v = self.bin()
        st = utf8_status(v)
        if st == "bad": raise Bad("utf8")
        if st == "may": self.may = True
        return v
    def vbi(self):
        v, np = vbi_dec_strict(self.d[:self.e], self.p)
        self.p = np
        return v
    def rest(self):
        v = bytes(self.d[self.p:self.e]); self.p = self.e; return v

# property id -> wire type
PTYPE = {0x01: "b", 0x02: "4", 0x03: "s", 0x08: "s", 0x09: "d", 0x0B: "v", 0x11: "4", 0x12: "s", 0x13: "2", 0x15: "s",
         0x16: "d", 0x17: "b", 0x18: "4", 0x19: "b", 0x1A: "s", 0x1C: "s", 0x1F: "s", 0x21: "2", 0x22: "2", 0x23: "2",
         0x24: "b", 0x25: "b", 0x26: "u", 0x27: "4", 0x28: "b", 0x29: "b", 0x2A: "b"}
# MQTT 5 table 2-4 restricted to what a server can be sent (PUBLISH without Subscription Identifier [MQTT-3.3.4-6]);
# CONNACK / SUBACK / UNSUBACK as the specification lists them
SPEC_PROPS = {
    "CONNECT": {0x11, 0x15, 0x16, 0x17, 0x19, 0x21, 0x22, 0x26, 0x27},
    "WILL": {0x01, 0x02, 0x03, 0x08, 0x09, 0x18, 0x26},
    "CONNACK": {0x11, 0x12, 0x13, 0x15, 0x16, 0x1A, 0x1C, 0x1F, 0x21, 0x22, 0x24, 0x25, 0x26, 0x27, 0x28, 0x29, 0x2A},
    "PUBLISH": {0x01, 0x02, 0x03, 0x08, 0x09, 0x23, 0x26},
    "PUBLISH_OUT": {0x01, 0x02, 0x03, 0x08, 0x09, 0x0B, 0x23, 0x26},
    "PUBACK": {0x1F, 0x26}, "PUBREC": {0x1F, 0x26}, "PUBREL": {0x1F, 0x26}, "PUBCOMP": {0x1F, 0x26},
    "SUBSCRIBE": {0x0B, 0x26}, "SUBACK": {0x1F, 0x26}, "UNSUBSCRIBE": {0x26}, "UNSUBACK": {0x1F, 0x26},
    "DISCONNECT": {0x11, 0x1C, 0x1F, 0x26}, "AUTH": {0x15, 0x16, 0x1F, 0x26},
}
BOOL_PROPS = {0x01, 0x17, 0x19, 0x24, 0x25, 0x28, 0x29, 0x2A}

def dec_props(r, table):
    """returns {id: value}; 0x0B -> list of ints, 0x26 -> list of (k, v)"""
    n = r.vbi()
    if r.left() < n: raise Bad("property length beyond packet")
    end = r.p + n
    sub = R(r.d, r.p, end)
    ps = {}
    while sub.left() > 0:
        i = sub.u8()
        if i not in PTYPE: raise Bad("unknown property")
        if i not in SPEC_PROPS[table]: raise Bad("property not allowed here")
        t = PTYPE[i]
        if t == "u":
            k = sub.str(); v = sub.str()
            ps.setdefault(i, []).append((k, v)); continue
        if t == "v":
            v = sub.vbi()
            if v == 0: raise Bad("subscription identifier 0")
            if i in ps and table != "PUBLISH_OUT": raise Bad("duplicate")
            ps.setdefault(i, []).append(v); continue
        if i in ps: raise Bad("duplicate property")
        if t == "b":
            v = sub.u8()
            if i in BOOL_PROPS and v > 1: raise Bad("bool value")
        elif t == "2":
            v = sub.u16()
            if i in (0x21, 0x23) and v == 0: raise Bad("zero")
        elif t == "4":
            v = sub.u32()
            if i == 0x27 and v == 0: raise Bad("zero")
        elif t == "s":
            v = sub.str()
            if i == 0x08:
                st = topic_name_status(v)
                if st == "bad": raise Bad("response topic")
        else:
            v = sub.bin()
        ps[i] = v
    r.may = r.may or sub.may
    r.p = end
    if 0x16 in ps and 0x15 not in ps: raise Bad("auth data without method")
    return ps

def pydec(ver, data, role="server"):
    """strict decode of ONE packet at the start of data. returns (packet dict, consumed, may_flag)"""
    if len(data) < 2: raise Bad("short")
    t, fl = data[0] >> 4, data[0] & 15
    n, pos = vbi_dec_strict(data, 1)
    if len(data) - pos < n: raise Bad("truncated body")
    r = R(data, pos, pos + n)
    p = {}
    if t == 1:
        if fl != 0: raise Bad("flags")
        name = r.bin(); level = r.u8()
        if (name, level) not in ((b"MQIsdp", 3), (b"MQTT", 4), (b"MQTT", 5)): raise Refuse("protocol")
        cf = r.u8()
        if cf & 1: raise Bad("reserved")
        wf, wq, wr = bool(cf & 4), (cf >> 3) & 3, bool(cf & 32)
        if wq == 3 or (not wf and (wq or wr)): raise Bad("will flags")
        uf, pf = bool(cf & 128), bool(cf & 64)
        if level != 5 and pf and not uf: raise Bad("password without username")
        p = dict(type="CONNECT", ver=level, level=level, name=name, uf=uf, pf=pf, wr=wr, wq=wq, wf=wf, cs=bool(cf & 2), ka=r.u16())
        p["props"] = dec_props(r, "CONNECT") if level == 5 else {}
        p["cid"] = r.str()
        if level != 5 and len(p["cid"]) == 0 and not p["cs"]: raise Refuse("identifier rejected")
        p["wprops"], p["wt"], p["wm"], p["user"], p["pass"] = {}, b"", b"", b"", b""
        if wf:
            if level == 5: p["wprops"] = dec_props(r, "WILL")
            p["wt"] = r.str()
            if topic_name_status(p["wt"]) == "bad": raise Bad("will topic")
            p["wm"] = r.bin()
        if uf: p["user"] = r.str()
        if pf: p["pass"] = r.bin()
    elif t == 2:
        if fl != 0: raise Bad("flags")
        a = r.u8()
        if a > 1: raise Bad("ack flags")
        p = dict(type="CONNACK", ver=ver, sp=bool(a), code=r.u8(), props={})
        if ver == 5: p["props"] = dec_props(r, "CONNACK")
    elif t == 3:
        dup, qos, retain = bool(fl & 8), (fl >> 1) & 3, bool(fl & 1)
        if qos == 3 or (qos == 0 and dup): raise Bad("publish flags")
        topic = r.str()
        pid = 0
        if qos > 0:
            pid = r.u16()
            if pid == 0: raise Bad("packet id 0")
        props = dec_props(r, "PUBLISH" if role == "server" else "PUBLISH_OUT") if ver == 5 else {}
        if len(topic) == 0:
            if 0x23 not in props: raise Bad("empty topic without alias")
        elif topic_name_status(topic) == "bad": raise Bad("topic name")
        p = dict(type="PUBLISH", ver=ver, dup=dup, qos=qos, retain=retain, topic=topic, pid=pid, props=props, payload=r.rest())
    elif t in (4, 5, 6, 7):
        if fl != (2 if t == 6 else 0): raise Bad("flags")
        pid = r.u16()
        if pid == 0: raise Bad("packet id 0")
        p = dict(type={4: "PUBACK", 5: "PUBREC", 6: "PUBREL", 7: "PUBCOMP"}[t], ver=ver, pid=pid, code=0, props={})
        if ver == 5 and r.left() > 0:
            p["code"] = r.u8()
            if r.left() > 0: p["props"] = dec_props(r, p["type"])
    elif t == 8:
        if fl != 2: raise Bad("flags")
        pid = r.u16()
        if pid == 0: raise Bad("packet id 0")
        props = dec_props(r, "SUBSCRIBE") if ver == 5 else {}
        topics = []
        while True:
            f = r.str()
            st = v5_filter_status(f) if ver == 5 else topic_filter_status(f)
            if st == "bad": raise Bad("filter")
            o = r.u8()
            if ver == 5:
                if o & 0xC0 or (o & 3) == 3 or ((o >> 4) & 3) == 3: raise Bad("options")
                topics.append((f, o & 3, bool(o & 4), bool(o & 8), (o >> 4) & 3))
            else:
                if o > 2: raise Bad("qos")
                topics.append((f, o, False, False, 0))
            if r.left() == 0: break
        p = dict(type="SUBSCRIBE", ver=ver, pid=pid, props=props, topics=topics)
    elif t == 9:
        if fl != 0: raise Bad("flags")
        pid = r.u16()
        props = dec_props(r, "SUBACK") if ver == 5 else {}
        pl = r.rest()
        if len(pl) == 0: raise Bad("no reason codes")
        p = dict(type="SUBACK", ver=ver, pid=pid, props=props, payload=pl)
    elif t == 10:
        if fl != 2: raise Bad("flags")
        pid = r.u16()
        if pid == 0: raise Bad("packet id 0")
        props = dec_props(r, "UNSUBSCRIBE") if ver == 5 else {}
        topics = []
        while True:
            f = r.str()
            if topic_filter_status(f) == "bad": raise Bad("filter")
            topics.append(f)
            if r.left() == 0: break
        p = dict(type="UNSUBSCRIBE", ver=ver, pid=pid, props=props, topics=topics)
    elif t == 11:
        if fl != 0: raise Bad("flags")
        pid = r.u16()
        p = dict(type="UNSUBACK", ver=ver, pid=pid, props={}, payload=b"")
        if ver == 5:
            p["props"] = dec_props(r, "UNSUBACK")
            p["payload"] = r.rest()
            if len(p["payload"]) == 0: raise Bad("no reason codes")
    elif t in (12, 13):
        if fl != 0 or n != 0: raise Bad("ping")
        p = dict(type="PINGREQ" if t == 12 else "PINGRESP")
    elif t == 14:
        if fl != 0: raise Bad("flags")
        p = dict(type="DISCONNECT", ver=ver, code=0, props={})
        if ver == 5 and r.left() > 0:
            p["code"] = r.u8()
            if r.left() > 0: p["props"] = dec_props(r, "DISCONNECT")
    elif t == 15:
        if fl != 0: raise Bad("flags")
        if ver != 5: raise Bad("AUTH is v5 only")
        p = dict(type="AUTH", code=0, props={})
        if r.left() > 0:
            p["code"] = r.u8()
            if r.left() > 0: p["props"] = dec_props(r, "AUTH")
    else:
        raise Bad("reserved type")
    if r.left() != 0: raise Bad("trailing bytes inside the packet")
    return p, pos + n, r.may

# ------------------------------------------------------------------ independent codec: encoder

def e16(n): return bytes([(n >> 8) & 255, n & 255])
def e32(n): return n.to_bytes(4, "big")
def ebin(b): return e16(len(b)) + bytes(b)

def enc_prop_items(items):
    """items: list of (id, value) in wire order; 0x26 value = (k, v); 0x0B value = int"""
    out = bytearray()
    for i, v in items:
        out.append(i)
        t = PTYPE.get(i, "b")
        if t == "b": out.append(v)
        elif t == "2": out += e16(v)
        elif t == "4": out += e32(v)
        elif t in "sd": out += ebin(v)
        elif t == "v": out += vbi_enc(v)
        else: out += ebin(v[0]) + ebin(v[1])
    return bytes(out)

def enc_props(items):
    b = enc_prop_items(items)
    return vbi_enc(len(b)) + b

def frame(t, fl, body):
    return bytes([(t << 4) | fl]) + vbi_enc(len(body)) + bytes(body)

# ------------------------------------------------------------------ generators

GOOD_CHARS = ["a", "b", "z", "0", "/", " ", "$", "\u00e9", "\u00df", "\u20ac", "\u4e2d", "\U0001F600", "\U0010FFFF", "~", "\u00a0", "\ud7ff", "\ue000"]
RARE_CHARS = ["\ufffd"]
MAY_CHARS = ["\u0001", "\u001f", "\u007f", "\u0085", "\u009f", "﷐", "￾", "￿"]
BAD_SEQS = [b"\x00", b"\xc0\x80", b"\xc1\xbf", b"\xe0\x80\x80", b"\xe0\x9f\xbf", b"\xed\xa0\x80", b"\xed\xbf\xbf", b"\xf0\x80\x80\x80",
            b"\xf0\x8f\xbf\xbf", b"\xf4\x90\x80\x80", b"\xf5\x80\x80\x80", b"\xff", b"\x80", b"\xbf", b"\xc2", b"\xe2\x82", b"\xf0\x9f\x98",
            b"\xc2\x41", b"\xe2\x41\x80", b"\xe2\x82\x41", b"\xf0\x9f\x41\x80", b"\xfe", b"\xf8\x88\x80\x80\x80"]

def gen_text(rng, chaos=0.0, maxlen=8):
    n = rng.choice([0, 1, 1, 2, 3, 5, maxlen])
    if rng.random() < 0.02:              # long field: property / remaining lengths need two or three length bytes
        n = rng.choice([130, 300, 5500])
    out = bytearray()
    for _ in range(n):
        r = rng.random()
        if r < chaos * 0.5:
            out += rng.choice(BAD_SEQS)
        elif r < chaos:
            out += rng.choice(MAY_CHARS).encode()
        elif r > 0.985:
            out += rng.choice(RARE_CHARS).encode()
        else:
            out += rng.choice(GOOD_CHARS).encode("utf-8", "surrogatepass")
    return bytes(out)

def gen_name(rng, chaos=0.0):
    """a topic name, mostly valid"""
    levels = [gen_text(rng, chaos, 4).replace(b"/", b"x") for _ in range(rng.choice([1, 1, 2, 3, 4]))]
    b = b"/".join(levels)
    if rng.random() < chaos:
        b = b + rng.choice([b"+", b"#", b"/+", b"/#", b""])
    if len(b) == 0 and rng.random() > chaos:
        b = b"t"
    return b

def gen_filter(rng, chaos=0.0, v5=False):
    lv = []
    for _ in range(rng.choice([1, 1, 2, 3, 4, 6])):
        r = rng.random()
        if r < 0.2: lv.append(b"+")
        elif r < 0.25 + chaos * 0.3: lv.append(rng.choice([b"#", b"+a", b"a+", b"a#", b"#a", b"++", b"+#", b""]))
        else: lv.append(gen_text(rng, chaos, 4).replace(b"/", b"y"))
    if rng.random() < 0.25: lv.append(b"#")
    b = b"/".join(lv)
    if v5 and rng.random() < 0.3:
        share = rng.choice([b"g", b"grp", "é".encode(), b"", b"a+", b"#", b"g"]) if rng.random() < 0.3 + chaos else b"g"
        b = b"$share/" + share + (b"/" + b if rng.random() < 0.95 else b"")
    if len(b) == 0 and rng.random() > chaos:
        b = b"f"
    return b

def gen_prop_value(rng, i, chaos):
    t = PTYPE[i]
    if t == "b":
        return rng.choice([0, 1]) if rng.random() >= chaos else rng.choice([0, 1, 2, 255])
    if t == "2":
        return rng.choice([1, 2, 10, 65535, rng.randint(1, 65535)]) if rng.random() >= chaos else rng.choice([0, 1, 65535])
    if t == "4":
        return rng.choice([1, 60, 4294967295, rng.randint(1, 4294967295)]) if rng.random() >= chaos else rng.choice([0, 1])
    if t == "s":
        return gen_name(rng, chaos) if i == 0x08 else gen_text(rng, chaos)
    if t == "d":
        return bytes(rng.randrange(256) for _ in range(rng.choice([0, 1, 3, 8])))
    if t == "v":
        return rng.choice([1, 127, 128, 16383, 16384, 2097151, 2097152, 268435455]) if rng.random() >= chaos else rng.choice([0, 1, 268435455])
    return (gen_text(rng, chaos), gen_text(rng, chaos))

def gen_props(rng, table, chaos, want=None):
    """list of (id, value) in a random wire order. chaos: duplicates, foreign ids, unknown ids"""
    allowed = sorted(SPEC_PROPS[table])
    ids = [i for i in allowed if rng.random() < rng.choice([0.0, 0.3, 0.6, 1.0])]
    if want:
        ids = sorted(set(ids) | set(want))
    if FORCE[0] is not None:
        ids.append(FORCE[0])
    if 0x16 in ids and 0x15 not in ids and rng.random() >= chaos:
        ids.append(0x15)
    if 0x0B in ids and table == "PUBLISH_OUT":
        ids += [0x0B] * rng.choice([0, 1, 2])
    ids += [0x26] * (rng.choice([0, 0, 1, 2, 3]) if 0x26 in allowed else 0)
    if rng.random() < chaos:
        ids.append(rng.choice(ids) if ids and rng.random() < 0.5 else rng.choice(sorted(PTYPE)))
    if rng.random() < chaos * 0.3:
        ids.append(rng.choice([0x00, 0x04, 0x0A, 0x14, 0x20, 0x2B, 0x7F, 0xFF]))
    rng.shuffle(ids)
    return [(i, gen_prop_value(rng, i, chaos) if i in PTYPE else 0) for i in ids]

TYPES = ["CONNECT", "CONNACK", "PUBLISH", "PUBACK", "PUBREC", "PUBREL", "PUBCOMP", "SUBSCRIBE", "SUBACK", "UNSUBSCRIBE",
         "UNSUBACK", "PINGREQ", "PINGRESP", "DISCONNECT", "AUTH"]
TNUM = {n: i + 1 for i, n in enumerate(TYPES)}

def gen_packet(rng, ver, typ, chaos=0.0):
    """encode a random packet of the given type for reader version `ver`. chaos = probability of a local defect."""
    c = lambda: rng.random() < chaos
    pid = lambda: e16(rng.choice([1, 2, 255, 256, 65535, rng.randint(1, 65535)]) if not c() else 0)
    v5p = ver == 5
    if typ == "CONNECT":
        level = ver if not c() else rng.choice([0, 2, 3, 4, 5, 6, 100])
        name = {3: b"MQIsdp", 4: b"MQTT", 5: b"MQTT"}.get(level, b"MQTT") if not c() else rng.choice([b"MQTT", b"MQIsdp", b"mqtt", b"", b"MQTTT"])
        wf = rng.random() < 0.5
        uf = rng.random() < 0.5
        pf = (rng.random() < 0.5) and (uf or level == 5 or c())
        wq = rng.choice([0, 1, 2]) if wf else 0
        wr = wf and rng.random() < 0.5
        cs = rng.random() < 0.6
        if c(): wq = rng.choice([1, 2, 3])
        if c(): wr = True
        flags = (uf << 7) | (pf << 6) | (wr << 5) | (wq << 3) | (wf << 2) | (cs << 1) | (1 if c() else 0)
        body = ebin(name) + bytes([level, flags]) + e16(rng.choice([0, 60, 65535]))
        if level == 5:
            body += enc_props(gen_props(rng, "CONNECT", chaos))
        cid = gen_text(rng, chaos) if (cs or rng.random() < 0.9) else b""
        if not cs and len(cid) == 0 and not c(): cid = b"c"
        body += ebin(cid)
        if wf:
            if level == 5: body += enc_props(gen_props(rng, "WILL", chaos))
            body += ebin(gen_name(rng, chaos)) + ebin(bytes(rng.randrange(256) for _ in range(rng.choice([0, 1, 5]))))
        if uf: body += ebin(gen_text(rng, chaos))
        if pf: body += ebin(bytes(rng.randrange(256) for _ in range(rng.choice([0, 1, 4, 9]))))
        if c(): body += b"\x00"
        return frame(1, 0 if not c() else rng.randrange(16), body)
    if typ == "CONNACK":
        body = bytes([rng.choice([0, 1]) if not c() else rng.choice([2, 3, 128, 255]), rng.choice([0, 1, 2, 0x80, 0x87, 0x9F])])
        if v5p: body += enc_props(gen_props(rng, "CONNACK", chaos))
        return frame(2, 0 if not c() else rng.randrange(16), body)
    if typ == "PUBLISH":
        qos = rng.choice([0, 1, 2]) if not c() else 3
        dup = rng.random() < 0.3 and (qos > 0 or c())
        retain = rng.random() < 0.3
        alias = v5p and rng.random() < 0.3
        topic = gen_name(rng, chaos) if not (alias and rng.random() < 0.6) else b""
        body = ebin(topic)
        if qos > 0: body += pid()
        if v5p: body += enc_props(gen_props(rng, "PUBLISH", chaos, want=[0x23] if alias else None))
        body += bytes(rng.randrange(256) for _ in range(rng.choice([0, 0, 1, 3, 20, 130, 130, 17000 if rng.random() < 0.1 else 200])))
        return frame(3, (dup << 3) | (qos << 1) | retain, body)
    if typ in ("PUBACK", "PUBREC", "PUBREL", "PUBCOMP"):
        body = pid()
        if v5p and rng.random() < 0.7:
            body += bytes([rng.choice([0, 0x10, 0x80, 0x92])])
            if rng.random() < 0.7: body += enc_props(gen_props(rng, typ, chaos))
        elif c(): body += b"\x00"
        fl = 2 if typ == "PUBREL" else 0
        return frame(TNUM[typ], fl if not c() else rng.randrange(16), body)
    if typ == "SUBSCRIBE":
        body = pid()
        if v5p: body += enc_props(gen_props(rng, "SUBSCRIBE", chaos))
        for _ in range(rng.choice([1, 1, 2, 3, 5]) if not c() else 0):
            body += ebin(gen_filter(rng, chaos, v5p))
            if v5p:
                o = rng.choice([0, 1, 2]) | (rng.choice([0, 4])) | rng.choice([0, 8]) | (rng.choice([0, 1, 2]) << 4)
                if c(): o = rng.choice([3, 0x30, 0x40, 0x80, 0xFF])
            else:
                o = rng.choice([0, 1, 2]) if not c() else rng.choice([3, 4, 0x80])
            body += bytes([o])
        return frame(8, 2 if not c() else rng.randrange(16), body)
    if typ == "SUBACK":
        body = pid()
        if v5p: body += enc_props(gen_props(rng, "SUBACK", chaos))
        body += bytes(rng.choice([0, 1, 2, 0x80, 0x8F]) for _ in range(rng.choice([1, 2, 4]) if not c() else 0))
        return frame(9, 0 if not c() else rng.randrange(16), body)
    if typ == "UNSUBSCRIBE":
        body = pid()
        if v5p: body += enc_props(gen_props(rng, "UNSUBSCRIBE", chaos))
        for _ in range(rng.choice([1, 1, 2, 4]) if not c() else 0):
            body += ebin(gen_filter(rng, chaos, False))
        return frame(10, 2 if not c() else rng.randrange(16), body)
    if typ == "UNSUBACK":
        body = pid()
        if v5p:
            body += enc_props(gen_props(rng, "UNSUBACK", chaos))
            body += bytes(rng.choice([0, 0x11, 0x80]) for _ in range(rng.choice([1, 2, 4]) if not c() else 0))
        return frame(11, 0 if not c() else rng.randrange(16), body)
    if typ in ("PINGREQ", "PINGRESP"):
        return frame(TNUM[typ], 0 if not c() else rng.randrange(16), b"" if not c() else b"\x00")
    if typ == "DISCONNECT":
        body = b""
        if v5p and rng.random() < 0.7:
            body = bytes([rng.choice([0, 4, 0x81, 0x8E])])
            if rng.random() < 0.7: body += enc_props(gen_props(rng, "DISCONNECT", chaos))
        elif c(): body = b"\x00"
        return frame(14, 0 if not c() else rng.randrange(16), body)
    if typ == "AUTH":
        body = b""
        if rng.random() < 0.8:
            body = bytes([rng.choice([0, 0x18, 0x19])])
            if rng.random() < 0.8: body += enc_props(gen_props(rng, "AUTH", chaos, want=[0x15]))
        return frame(15, 0 if not c() else rng.randrange(16), body)
    raise ValueError(typ)

def noncanon_vbi(rng, n):
    """an over-long encoding of n (still terminated)"""
    b = bytearray(vbi_enc(n))
    for _ in range(rng.choice([1, 1, 2, 3, 4, 6])):
        b[-1] |= 0x80
        b.append(0)
    return bytes(b)

def mutate(rng, data):
    """byte-level mutations of an encoded packet"""
    d = bytearray(data)
    k = rng.randrange(11)
    try:
        n, pos = vbi_dec_strict(data, 1)
    except Bad:
        n, pos = 0, min(2, len(data))
    body = bytes(d[pos:])
    if k == 0 and len(d) > 0:           # truncate, header untouched
        return bytes(d[:rng.randrange(len(d))])
    if k == 1:                          # truncate the body and fix the remaining length
        b = body[:rng.randrange(len(body) + 1)]
        return bytes(d[:1]) + vbi_enc(len(b)) + b
    if k == 2:                          # remaining length ±1 / maximal / huge
        nn = rng.choice([max(0, n - 1), n + 1, n + 2, 127, 128, 16383, 16384, 268435455])
        return bytes(d[:1]) + vbi_enc(nn) + body
    if k == 3:                          # non-canonical remaining length
        return bytes(d[:1]) + noncanon_vbi(rng, n) + body
    if k == 4 and len(d) > 0:           # flag bits / type
        d[0] = (d[0] & 0xF0) | rng.randrange(16) if rng.random() < 0.7 else (rng.randrange(16) << 4) | (d[0] & 15)
        return bytes(d)
    if k == 5 and len(d) > pos:         # overwrite one body byte with an interesting value
        i = rng.randrange(pos, len(d))
        d[i] = rng.choice([0, 1, 2, 0x23, 0x2B, 0x2F, 0x7F, 0x80, 0xBF, 0xC0, 0xED, 0xEF, 0xF4, 0xFF, d[i] ^ (1 << rng.randrange(8))])
        return bytes(d)
    if k == 6 and len(d) > pos:         # delete a body byte, length fixed
        i = rng.randrange(pos, len(d))
        b = bytes(d[pos:i] + d[i + 1:])
        return bytes(d[:1]) + vbi_enc(len(b)) + b
    if k == 7:                          # insert a byte, length fixed
        i = rng.randrange(len(body) + 1)
        b = body[:i] + bytes([rng.choice([0, 0x2B, 0x23, 0x80, 0xFF, rng.randrange(256)])]) + body[i:]
        return bytes(d[:1]) + vbi_enc(len(b)) + b
    if k == 8 and len(body) >= 2:       # a 16-bit length field somewhere: ±1 / maximal
        i = rng.randrange(len(body) - 1)
        v = (body[i] << 8) | body[i + 1]
        v = rng.choice([(v + 1) & 0xFFFF, (v - 1) & 0xFFFF, 0xFFFF, 0])
        b = body[:i] + e16(v) + body[i + 2:]
        return bytes(d[:1]) + vbi_enc(len(b)) + b
    if k == 9:                          # extra bytes after the packet
        return bytes(d) + bytes(rng.randrange(256) for _ in range(rng.choice([1, 2, 5])))
    return bytes(d[:1]) + vbi_enc(len(body) + 3) + body + b"\x26\x00\x00"[:3]

def hx(b):
    return b.hex() if len(b) else "-"

def gen_dec_op(rng):
    ver = rng.choice([3, 4, 4, 5, 5, 5])
    r = rng.random()
    if PRIORITY and rng.random() < 0.3:
        # an entry of the property tables on which source and model disagree: a v5 packet of that type carrying that property
        t, pid = rng.choice(PRIORITY)
        FORCE[0] = pid if pid in PTYPE else None
        try:
            data = gen_packet(rng, 5, TYPES[t - 1], 0.0)
        finally:
            FORCE[0] = None
        return f"dec 5 {hx(data)}"
    if r < 0.06:
        data = bytes(rng.randrange(256) for _ in range(rng.choice([0, 1, 2, 3, 5, 9, 20, 60])))
        if rng.random() < 0.5 and len(data) > 1:
            data = bytes([data[0]]) + vbi_enc(len(data) - 2 if len(data) - 2 < 128 else 0) + data[2:]
        return f"dec {ver} {hx(data)}"
    typ = rng.choice(TYPES + ["PUBLISH", "CONNECT", "SUBSCRIBE"])
    chaos = rng.choice([0.0, 0.0, 0.0, 0.05, 0.15])
    data = gen_packet(rng, ver, typ, chaos)
    if r < 0.40:
        data = mutate(rng, data)
        if rng.random() < 0.2:
            data = mutate(rng, data)
    return f"dec {ver} {hx(data)}"

def gen_valid_op(rng):
    op = rng.choice(["vt", "vf", "vf", "v5", "v5", "u8"])
    chaos = rng.choice([0.0, 0.1, 0.3])
    if op == "vt":
        b = gen_name(rng, chaos)
    elif op == "u8":
        b = gen_text(rng, chaos, 12)
    else:
        b = gen_filter(rng, chaos, op == "v5")
    if rng.random() < 0.15:            # tiny exhaustive-ish strings over the critical alphabet
        alpha = [b"+", b"#", b"/", b"a", b"$share/", "é".encode(), b"\xef\xbf\xbd", b"\x80", b"\x00", b"\x7f"]
        b = b"".join(rng.choice(alpha) for _ in range(rng.choice([0, 1, 2, 3, 4, 5])))
    if op != "u8" and rng.random() < 0.4:
        op = "r" + op
    return f"{op} x{b.hex()}"

def gen_vbi_op(rng):
    if rng.random() < 0.25:
        return f"evbi {rng.choice([0, 1, 127, 128, 16383, 16384, 2097151, 2097152, 268435455, 268435456, rng.randrange(1 << 29)])}"
    n = rng.choice([0, 1, 127, 128, 300, 16383, 16384, 2097151, 2097152, 268435455, rng.randrange(1 << 28)])
    r = rng.random()
    if r < 0.4: b = vbi_enc(n)
    elif r < 0.6: b = noncanon_vbi(rng, n)
    elif r < 0.75: b = vbi_enc(n)[:-1]
    elif r < 0.9: b = bytes(rng.choice([0x80, 0xFF, 0x7F, 0x00, 0x90, rng.randrange(256)]) for _ in range(rng.randrange(9)))
    else: b = bytes([0xFF, 0xFF, 0xFF, rng.choice([0x7F, 0x80, 0xFF]), rng.choice([0x00, 0x01, 0x10, 0x7F])])
    b += bytes(rng.randrange(256) for _ in range(rng.choice([0, 0, 2])))
    return f"vbi {hx(b)}"

def xs(b):
    return "-" if b is None else "x" + b.hex()

def gen_msg_op(rng):
    ver = rng.choice([3, 4, 5, 5, 5])
    if rng.random() < 0.4:
        data = gen_packet(rng, ver, "PUBLISH", rng.choice([0.0, 0.0, 0.1]))
        return f"msg {ver} {hx(data)}"
    qos = rng.choice([0, 1, 2])
    ob = lambda: rng.choice([None, b"", b"a", gen_text(rng, 0.0)])
    topic = gen_name(rng)
    pl = bytes(rng.randrange(256) for _ in range(rng.choice([0, 1, 5, 100, 121, 122, 123, 130, 16300, 16383])))
    subids = "|".join(str(rng.choice([1, 127, 128, 16383, 16384, 2097152, 268435455])) for _ in range(rng.choice([0, 0, 1, 2, 4]))) or "-"
    user = "|".join(f"{xs(gen_text(rng))}:{xs(gen_text(rng))}" for _ in range(rng.choice([0, 0, 1, 3]))) or "-"
    return (f"mk {ver} {qos} {rng.choice([0, 1])} {rng.choice([0, 1]) if qos else 0} {rng.choice([1, 65535]) if qos else 0} x{topic.hex()} x{pl.hex()} "
            f"{xs(ob())} {xs(ob())} {rng.choice([0, 0, 1, 4294967295])} {rng.choice([0, 0, 1, 2])} {xs(rng.choice([None, b'', gen_name(rng)]))} {subids} {user}")

def gen_stream_op(rng):
    ver = 4
    out = bytearray()
    for _ in range(rng.choice([1, 2, 3, 5])):
        typ = rng.choice(TYPES)
        if typ == "CONNECT":
            nv = rng.choice([3, 4, 5])
            out += gen_packet(rng, nv, typ, 0.0)
            ver = nv
        else:
            out += gen_packet(rng, ver, typ, rng.choice([0.0, 0.0, 0.0, 0.1]))
    if rng.random() < 0.2:
        out = out[:rng.randrange(len(out) + 1)]
    return f"stream {hx(bytes(out))}"

def gen_keep_op(rng):
    """several (mostly well-formed) packets that the driver keeps alive while it goes on using the codec"""
    ver = rng.choice([3, 4, 5, 5, 5])
    pk = []
    for _ in range(rng.choice([2, 2, 3, 4, 6])):
        typ = rng.choice(TYPES + ["PUBLISH", "PUBLISH", "PUBLISH", "CONNECT", "SUBSCRIBE", "UNSUBSCRIBE", "SUBACK"])
        data = gen_packet(rng, ver, typ, rng.choice([0.0, 0.0, 0.0, 0.05]))
        if rng.random() < 0.08:
            data = mutate(rng, data)
        pk.append(data)
    if rng.random() < 0.5:
        pk.sort(key=len, reverse=True)      # later bodies fit into the buffers of earlier ones
    return f"keep {ver} " + ",".join(hx(d) for d in pk)

def gen_alloc_op(rng):
    t = rng.choice([1, 2, 3, 4, 5, 6, 7, 8, 9, 10, 11, 14, 15])
    fl = {3: rng.choice([0, 2, 4]), 6: 2, 8: 2, 10: 2}.get(t, 0)
    n = rng.choice([1 << 20, 1 << 24, 268435455, 5, 100])
    body = bytes(rng.randrange(256) for _ in range(rng.choice([0, 3, 10])))
    return f"alloc {rng.choice([4, 5])} {hx(bytes([(t << 4) | fl]) + vbi_enc(n) + body)}"

def gen_pf_op(rng):
    """an encode that fails after n bytes (a connection dying mid-flush); the encodes of the following ops must be unaffected"""
    ver = rng.choice([4, 5, 5])
    typ = rng.choice(["PUBLISH", "PUBLISH", "PUBLISH", "CONNECT", "SUBSCRIBE", "SUBACK", "PUBACK", "UNSUBSCRIBE", "DISCONNECT"])
    data = gen_packet(rng, ver, typ, 0.0)
    return f"pf {ver} {hx(data)} {rng.choice([0, 0, 1, 2, 3, 5, 20, 700])}"

def gen(rng):
    ops = []
    for _ in range(rng.choice([4, 8, 12])):
        r = rng.random()
        if rng.random() < 0.12: ops.append(gen_pf_op(rng))
        if r < 0.10: ops.append(gen_keep_op(rng))
        elif r < 0.62: ops.append(gen_dec_op(rng))
        elif r < 0.78: ops.append(gen_valid_op(rng))
        elif r < 0.86: ops.append(gen_vbi_op(rng))
        elif r < 0.95: ops.append(gen_msg_op(rng))
        else: ops.append(gen_stream_op(rng))
    return ops

def gen_alloc(rng):
    return [gen_alloc_op(rng) for _ in range(3)]

# ------------------------------------------------------------------ reading the canonical dump

def unx(s):
    """'-' (nil) and 'x' (empty) are the same value for the comparison with the independent decoder"""
    return b"" if s == "-" else bytes.fromhex(s[1:])

def parse_props(s):
    if s == "nil" or s == "{}":
        return {}
    ps = {}
    for item in s[1:-1].split(","):
        k, v = item.split("=", 1)
        i = int(k, 16)
        t = PTYPE[i]
        if t in "b24": ps[i] = int(v)
        elif t in "sd": ps[i] = unx(v)
        elif t == "v": ps[i] = [int(x) for x in v.split("|")]
        else: ps[i] = [tuple(unx(y) for y in x.split(":")) for x in v.split("|")]
    return ps

def parse_dump(line):
    """'ok TYPE k=v … consumed=..' -> (packet dict, meta dict)"""
    f = line.split(" ")
    p, meta = {"type": f[1]}, {}
    for tok in f[2:]:
        if "=" not in tok:
            meta[tok.split(":")[0]] = tok
            continue
        k, v = tok.split("=", 1)
        if k in ("consumed", "size0", "size", "reenc", "rt"):
            meta[k] = v
        elif k in ("props", "wprops"):
            p[k] = parse_props(v)
        elif k in ("name", "cid", "wt", "wm", "user", "pass", "topic", "payload"):
            p[k] = unx(v)
        elif k == "topics":
            ts = []
            for x in (v[1:-1].split(",") if v != "[]" else []):
                q = x.split(":")
                ts.append((unx(q[0]), int(q[1]), q[2] == "1", q[3] == "1", int(q[4])) if len(q) == 5 else unx(q[0]))
            p[k] = ts
        elif k in ("uf", "pf", "wr", "wf", "cs", "sp", "dup", "retain"):
            p[k] = v == "1"
        else:
            p[k] = int(v)
    return p, meta

def same_packet(a, b):
    """field-wise equality, ignoring the reader version a packet was decoded under"""
    ka = {k: v for k, v in a.items() if k != "ver"}
    kb = {k: v for k, v in b.items() if k != "ver"}
    if ka == kb:
        return None
    for k in sorted(set(ka) | set(kb)):
        if ka.get(k) != kb.get(k):
            return f"field {k}: {ka.get(k)!r} vs {kb.get(k)!r}"
    return "differs"

# ------------------------------------------------------------------ predicate

def strict(ver, data, role="server"):
    """('ok', pkt, consumed, may) | ('bad', reason) | ('refuse', reason)"""
    try:
        p, c, may = pydec(ver, data, role)
        return ("ok", p, c, may)
    except Bad as e:
        return ("bad", str(e))
    except Refuse as e:
        return ("refuse", str(e))

def check_dec(op, o):
    f = op.split()
    ver = int(f[1]); data = bytes.fromhex(f[2]) if f[2] != "-" else b""
    if o.startswith("panic") or o.startswith("CRASH"):
        return f"`{op}`: decoder panicked"
    m = re.search(r"consumed=(\d+)", o)
    if not m:
        return f"`{op}`: unparsable output `{o}`"
    consumed = int(m.group(1))
    if consumed > len(data):
        return f"`{op}`: consumed {consumed} > {len(data)} bytes supplied"
    ind = strict(ver, data)
    if o.startswith("err:"):
        if ind[0] == "ok" and not ind[3]:
            return f"`{op}`: rejected ({o.split()[0]}) a packet the independent MQTT decoder reads as {ind[1]['type']}"
        return None
    p, meta = parse_dump(o)
    try:
        n, pos = vbi_dec_strict(data, 1)
        if consumed != pos + n:
            return f"`{op}`: consumed {consumed}, but the packet is 1+{pos-1}+{n} bytes long"
    except Bad:
        pass                                   # over-long / cut-off length field accepted: recorded, not judged here
    if ind[0] == "ok":
        d = same_packet(ind[1], p)
        if d:
            return f"`{op}`: decoded fields differ from the independent decoder: {d}"
    if "packerr" in meta:
        return f"`{op}`: accepted packet cannot be re-encoded ({meta['packerr']})"
    if meta.get("rt") != "ok":
        return f"`{op}`: re-encoded bytes {meta.get('reenc')} do not decode to an equal packet (rt={meta.get('rt')})"
    re_b = bytes.fromhex(meta["reenc"])
    if int(meta["size"]) != len(re_b):
        return f"`{op}`: TotalBytes={meta['size']} but Pack wrote {len(re_b)} bytes"
    # the independent decoder must read the re-encoded bytes back to the same field values
    if ind[0] == "ok":
        ind2 = strict(p.get("ver", ver), re_b)
        if ind2[0] != "ok":
            return f"`{op}`: independent decoder rejects the re-encoded bytes {meta['reenc']}: {ind2[1]}"
        d = same_packet(ind2[1], p)
        if d:
            return f"`{op}`: independent decode of the re-encoded bytes differs: {d}"
    return None

def check_valid(op, o):
    f = op.split()
    b = bytes.fromhex(f[1][1:])
    if o not in ("0", "1"):
        return f"`{op}`: `{o}`"
    if f[0].startswith("r"):          # bare helper: only judged on strings without any questionable character
        if utf8_status(b) != "ok":
            return None
    st = {"vt": topic_name_status, "vf": topic_filter_status, "v5": v5_filter_status, "u8": utf8_status}[f[0].lstrip("r")](b)
    if st == "ok" and o == "0":
        return f"`{op}`: rejected, but MQTT 4.7 / 1.5.4 allows it"
    if st == "bad" and o == "1":
        return f"`{op}`: accepted, but MQTT 4.7 / 1.5.4 forbids it"
    return None

def check_vbi(op, o):
    f = op.split()
    if f[0] == "evbi":
        n = int(f[1])
        if n < 268435456:
            return None if o == "ok " + vbi_enc(n).hex() else f"`{op}`: `{o}`, expected {vbi_enc(n).hex()}"
        return None if o.startswith("err:") else f"`{op}`: `{o}` for a value that has no encoding"
    data = bytes.fromhex(f[1]) if f[1] != "-" else b""
    m = re.search(r"consumed=(\d+)", o)
    if not m or int(m.group(1)) > len(data):
        return f"`{op}`: `{o}`"
    try:
        n, pos = vbi_dec_strict(data, 0)
    except Bad:
        return None
    return None if o == f"ok {n} consumed={pos}" else f"`{op}`: `{o}`, the independent reader gets {n} from {pos} bytes"

def check_msg(op, o):
    f = op.split()
    if o.startswith("panic") or o.startswith("CRASH"):
        return f"`{op}`: panicked"
    if o.startswith("err:") or o == "notpublish" or "packerr" in o:
        return None
    m = re.match(r"total=(\d+) len=(\d+) repack=([0-9a-f]*)$", o)
    if not m:
        return f"`{op}`: `{o}`"
    if m.group(1) != m.group(2):
        return f"`{op}`: Message.TotalBytes={m.group(1)} but the packed PUBLISH has {m.group(2)} bytes"
    ver = int(f[1])
    if f[0] == "mk":
        ind = strict(ver, bytes.fromhex(m.group(3)), role="client")
        topic = unx(f[6])
        if ind[0] != "ok":
            if len(topic) == 0 or "packet id 0" in ind[1] or int(f[2]) > 2:
                return None
            return f"`{op}`: independent decoder rejects the packed PUBLISH: {ind[1]}"
        p = ind[1]
        want = dict(qos=int(f[2]), retain=f[3] == "1", dup=f[4] == "1", topic=topic, payload=unx(f[7]))
        for k, v in want.items():
            if p[k] != v:
                return f"`{op}`: packed PUBLISH field {k} = {p[k]!r}, message has {v!r}"
        if ver == 5:
            ps = p["props"]
            exp = {}
            if f[11] == "1": exp[0x01] = 1
            if int(f[10]): exp[0x02] = int(f[10])
            if unx(f[8]): exp[0x03] = unx(f[8])
            if unx(f[12]): exp[0x08] = unx(f[12])
            if unx(f[9]): exp[0x09] = unx(f[9])
            if f[13] != "-": exp[0x0B] = [int(x) for x in f[13].split("|")]
            if f[14] != "-": exp[0x26] = [tuple(unx(y) for y in x.split(":")) for x in f[14].split("|")]
            if ps != exp:
                return f"`{op}`: packed PUBLISH properties {ps!r}, message has {exp!r}"
    return None

def py_stream(data):
    """strict decode of a whole stream with version switching; None if any packet is not strictly well-formed"""
    ver, pos, out = 4, 0, []
    while pos < len(data):
        ind = strict(ver, data[pos:])
        if ind[0] != "ok" or ind[3]:
            return None
        p, c = ind[1], ind[2]
        pos += c
        if p["type"] == "CONNECT":
            ver = p["level"]
            out.append(f"CONNECTv{ver}@{pos}")
        else:
            out.append(f"{p['type']}@{pos}")
    return out

def check_stream(op, o):
    f = op.split()
    data = bytes.fromhex(f[1]) if f[1] != "-" else b""
    if not o.startswith("stream"):
        return f"`{op}`: `{o}`"
    last = 0
    for tok in o.split()[1:]:
        at = int(tok.rsplit("@", 1)[1])
        if at < last or at > len(data):
            return f"`{op}`: position {at} after {last} (stream has {len(data)} bytes)"
        last = at
    exp = py_stream(data)
    if exp is not None and o.split()[1:] != exp:
        return f"`{op}`: got `{o}`, the independent decoder frames the stream as {' '.join(exp)}"
    return None

def check_keep(op, o):
    f = op.split()
    hexes = f[2].split(",")
    if not o.startswith("keep "):
        return f"`{op}`: `{o}`"
    parts = o[5:].split(" | ")
    if len(parts) != len(hexes):
        return f"`{op}`: {len(parts)} answers for {len(hexes)} packets"
    for i, (h, part) in enumerate(zip(hexes, parts)):
        why = check_dec(f"dec {f[1]} {h}", part)
        if why:
            return f"`{op}`: packet #{i + 1}, kept alive across later codec calls: {why}"
    return None

def check_alloc(op, o):
    if "alloc=excess" in o:
        return f"`{op}`: the decoder allocated memory out of proportion to the {len(op.split()[2]) // 2} bytes supplied"
    if "alloc=" not in o:
        return f"`{op}`: `{o}`"
    return None

CHECK = {"dec": check_dec, "vt": check_valid, "vf": check_valid, "v5": check_valid, "u8": check_valid,
         "rvt": check_valid, "rvf": check_valid, "rv5": check_valid, "vbi": check_vbi,
         "evbi": check_vbi, "msg": check_msg, "mk": check_msg, "stream": check_stream, "alloc": check_alloc,
         "keep": check_keep, "pf": (lambda op, o: None if o == "pf" else f"`{op}` -> {o}")}

def predicate(ops, out):
    if not ops:
        return None
    if len(out) != len(ops) or (out and out[0].startswith("CRASH")):
        return "implementation crashed or hung: " + (out[0] if out else "")
    for op, o in zip(ops, out):
        if o == "bad-op":
            return f"driver did not understand `{op}`"
        if o.startswith("panic"):
            return f"`{op}`: panic"
        why = CHECK[op.split()[0]](op, o)
        if why:
            return why
    return None

def nontrivial(ops, out):
    """an accepted packet with ≥ 1 property or ≥ 2 topics, or a rejected input that got past the fixed header"""
    for op, o in zip(ops, out):
        if not op.startswith("dec"):
            continue
        if o.startswith("ok "):
            if re.search(r"props=\{[^}]", o) or re.search(r"topics=\[[^\]]*,", o):
                return True
        elif o.startswith("err:"):
            m = re.search(r"consumed=(\d+)", o)
            if m and int(m.group(1)) > 2:
                return True
    return False

# ------------------------------------------------------------------ known-finding recognisers (for known-findings.txt, lead decides)

def _ops_with_reason(info):
    return info.get("why") or ""

def rec_f21(info):
    return any(op.startswith(("vf ", "v5 ")) for op in info["ops"]) and "accepted, but MQTT" in _ops_with_reason(info)
def rec_f22(info):
    return "efbfbd" in " ".join(info["ops"]) and ("rejected" in _ops_with_reason(info) or info["kind"] == "mismatch")
def rec_f23(info):
    return any(" 1" in op and "4d5149736470" in op for op in info["ops"]) and "do not decode to an equal packet" in _ops_with_reason(info)
def rec_f24(info):
    return any(op.startswith("alloc") for op in info["ops"]) and "out of proportion" in _ops_with_reason(info)
def rec_f25(info):
    return "rejected (err:malformed) a packet the independent MQTT decoder reads as" in _ops_with_reason(info)
def rec_f26(info):
    return info["ops"] == ["vt x"]
def rec_n5(info):
    return any(op.startswith("mk") for op in info["ops"]) and "Message.TotalBytes" in _ops_with_reason(info)
def rec_n7(info):
    return "do not decode to an equal packet (rt=differs)" in _ops_with_reason(info) and any(op.split()[2].startswith("10") for op in info["ops"] if op.startswith("dec"))

RECOGNISERS = {"c06_plus_prefix_filter": rec_f21, "c06_ufffd": rec_f22, "c06_connect_v31_reencode": rec_f23, "c06_alloc": rec_f24,
               "c06_binary_as_utf8": rec_f25, "c06_empty_topic_name": rec_f26, "c06_empty_correlation_data": rec_n5,
               "c06_will_qos3": rec_n7}

# ------------------------------------------------------------------ streams

class CodecStream(core.Stream):
    """VERIF_CODEC_DRIVE=<path> runs the same cases against another build of drive_codec (e.g. one linked to a patched tree)"""
    def impl(self, cases):
        exe = os.environ.get("VERIF_CODEC_DRIVE") or core.drive_exe(self.comp)
        return core.run_parallel([exe] + self.drive_args, cases, timeout=self.timeout)

def streams(tier):
    n = 2500 if tier == "quick" else 60000
    na = 12 if tier == "quick" else 200
    to = 180 if tier == "quick" else 1500      # per chunk of cases; generous so that a loaded machine never splits chunks
    return [(CodecStream("codec", "codec", gen, predicate, nontrivial, keep_prefix=0, timeout=to), n),
            (CodecStream("codec-alloc", "codec", gen_alloc, predicate, None, keep_prefix=0, timeout=to), na)]

def facts_search(r, proof_ok):
    """model-side search: oracle_codecfacts names every entry of the regenerated tables (Generated/Codec.lean) that differs
    from the model's transcription; (type, property) entries seed the generator. Also keeps the expected fingerprints of
    Model/Codec/SourceTie.lean honest (selfcheck)."""
    rc, out = core.build_lean(["oracle_codecfacts"], r.log)
    if rc != 0:
        r.violation("codec-facts", "# oracle_codecfacts does not build (Generated/Codec.lean missing or of another shape)\n" + out[-2000:],
                    False, "facts oracle failed")
        return
    rc, out = core.sh([core.oracle_exe("codecfacts")], timeout=120)
    lines = [l for l in out.strip().split("\n") if l.strip()]
    if rc == 0 and lines == ["tied"]:
        if not proof_ok:
            r.notes.append("regenerated codec facts agree with the model (the broken obligation is elsewhere)")
        return
    r.log("codec facts differ: " + " | ".join(lines[:12]))
    for l in lines:
        m = re.match(r"allowed type=(\d+) prop=(\d+) ", l)
        if m and 1 <= int(m.group(1)) <= 15:
            PRIORITY.append((int(m.group(1)), int(m.group(2))))
        m = re.match(r"(?:kind|dupcheck|writer) prop=(\d+)", l)
        if m:
            PRIORITY.extend((t, int(m.group(1))) for t in (1, 2, 3, 8, 14, 15))
    r.notes.append("regenerated codec facts differ from the model: " + "; ".join(lines[:20]))
    body = ("# pkg/packets/properties.go no longer says what Model/Codec/PropTable.lean + Props.lean transcribe\n"
            "# (theorems of Properties/C06Tables.lean); differing entries, from oracle_codecfacts:\n" + "\n".join(lines) + "\n")
    r.violation("codec-facts", body, False, "regenerated property tables differ from the model")

def run(r):
    import sys
    mod = sys.modules[__name__]
    r.recognisers.update(getattr(mod, "RECOGNISERS", {}))
    rc, out = core.build_go(r.log, ["extract"])
    if rc == 0:
        rc, out = core.extract_facts(r.log, NEEDS_FACTS)
    if rc != 0:
        r.violation("extract", "# fact extractor failed on /repo: the regenerated tie no longer checks\n" + out[-3000:], False,
                    "extractor failed")
    ok = r.prove(MODULE, THEOREMS, comps=COMPS, extra_modules=EXTRA_MODULES)
    if rc == 0:
        facts_search(r, ok)
    if not ok:
        core.build_lean(["oracle_codec"], r.log)      # the oracle does not depend on the property modules
    rc, out = core.build_go(r.log, list(COMPS))
    if rc != 0:
        r.violation("go-build", "# harness does not build against /repo any more\n" + out[-3000:], False, "go build failed")
        return r.finish(rule=RULE, assumptions=ASSUME)
    for s, n in streams(r.tier):
        r.correspond(s, n)
    return r.finish(rule=RULE, assumptions=ASSUME)

RULE = ("regenerated tie: harness/cmd/extract rewrites Generated/Codec.lean (ValidProperties, the switch of Properties.Unpack / "
        "UnpackWillProperties case by case, the write order of Pack / PackWillProperties, helper bodies, constants) from "
        "pkg/packets/*.go on every run and Properties/C06Tables.lean proves the model's tables equal to it; "
        "`keep` ops decode 2-6 packets, keep them alive while further packets are decoded/packed (pooled buffers reused) and only then "
        "dump and re-encode all of them (aliasing of decoded fields); "
        "byte strings through Reader.ReadPacket (versions 3/4/5): Python-encoded packets of all 15 types with random property sets in "
        "random order, ~35% byte-level mutants (truncation, remaining length ±1/max/non-canonical, flags, length fields, inserted/deleted "
        "bytes, trailing data), local defects (bad UTF-8, wildcards, duplicate/foreign/unknown properties, bad flags) and 6% raw random "
        "bytes; plus validity helpers, variable byte integers, Message.TotalBytes/MessageToPublish, multi-packet streams, allocation probes. "
        "Each line is run by the real code and by the Lean model and compared; the predicate re-checks the property against an independent "
        "Python MQTT codec. non-trivial = a case with an accepted packet carrying ≥ 1 property or ≥ 2 topics, or a rejected input that got "
        "past the fixed header")
ASSUME = ["the go/ast extractor reads properties.go by shape and fails (broken tie) on any other shape; texts are compared through FNV-1a-64 "
          "fingerprints computed by the extractor, the expected fingerprints are recomputed from the expected texts on every run (selfcheck)",
          "bufio.Reader / bytes.Buffer / io.ReadFull behave as byte lists (Go standard library trusted)",
          "unicode/utf8.DecodeRune is modelled from its Go source (table `first`/`acceptRanges`)",
          "heap behaviour is measured (runtime.MemStats around one ReadPacket), not proved",
          "the independent codec in vlib/props/c06.py is trusted as the reading of the MQTT 3.1.1/5 specifications"]
