"""C07 (store level) — retained-message store `retained/trie` through its public API.

Ops (one per line; topics/filters carry a leading ':' so that the empty string is a token):
  new | add :<topic> <tag> | rm :<topic> | clear | get :<topic> | match :<filter> | iter | iterstop <n>
The wire-level part of C07 (when the broker stores / clears / replays) is a separate component.
"""
import re
from .. import core

PROP = "C07"
MODULE = "GmqttVerif.Properties.C07"
THEOREMS = ["GmqttVerif.C07Order.retained_updated_between_hook_and_delivery", "GmqttVerif.C07Order.store_then_deliver_never_loses",
            "GmqttVerif.C07Order.deliver_then_store_can_lose", "GmqttVerif.C07Order.source_orders_are_safe",
            "GmqttVerif.Retained.retained_refines_map", "GmqttVerif.Retained.matched_exact",
            "GmqttVerif.Retained.iterate_exact", "GmqttVerif.Retained.iterate_stop_prefix",
            "GmqttVerif.Retained.matched_exact_hashLast",
            # broker level (Properties/C07Broker.lean): B.publish / B.subscribe / B.sendWill and the field B.retained
            "GmqttVerif.Broker.retained_store_on_publish", "GmqttVerif.Broker.accepted_message",
            "GmqttVerif.Broker.accepted_iff", "GmqttVerif.Broker.retained_last_value",
            "GmqttVerif.Broker.retained_last_value_step", "GmqttVerif.Broker.subscribe_replay_exact",
            "GmqttVerif.Broker.entry_copies_exact", "GmqttVerif.Broker.entry_copies_each_once",
            "GmqttVerif.Broker.entry_options", "GmqttVerif.Broker.replay_retain_flag_Statement_false",
            "GmqttVerif.Broker.replay_retain_flag_as_is", "GmqttVerif.Broker.will_retained",
            "GmqttVerif.Broker.retained_untouched_by_other_ops",
            "GmqttVerif.Broker.retained_changes_only_by_publish_or_will",
            "GmqttVerif.Broker.reachable_retained_ok", "GmqttVerif.Broker.online_has_session"]
EXTRA_MODULES = ['GmqttVerif.Properties.C07Broker']
NEEDS_FACTS = ["PubOrder"]
COMPS = ["retained", "broker"]

LEVELS = ["a", "b", "", "$s"]

# ---------------------------------------------------------------- generator

def rand_topic(rng, alphabet=LEVELS, maxlen=4):
    n = rng.choice([1, 1, 2, 2, 3, maxlen])
    return "/".join(rng.choice(alphabet) for _ in range(n))

def make_pool(rng, alphabet=LEVELS):
    """a handful of topics, many of them prefixes / extensions of each other, some below `$s`"""
    pool = [rand_topic(rng, alphabet)]
    for _ in range(rng.choice([2, 4, 6, 9])):
        r = rng.random()
        base = rng.choice(pool)
        lv = base.split("/")
        if r < 0.3:
            t = "/".join(lv + [rng.choice(alphabet)])                      # child
        elif r < 0.5 and len(lv) > 1:
            t = "/".join(lv[:rng.randint(1, len(lv) - 1)])                 # proper prefix (inner node)
        elif r < 0.6:
            lv2 = list(lv); lv2[rng.randrange(len(lv2))] = rng.choice(alphabet)
            t = "/".join(lv2)                                              # sibling somewhere
        elif r < 0.7:
            t = "/".join(["$s"] + lv)                                      # same path below a `$` root
        elif r < 0.75 and lv[0].startswith("$") and len(lv) > 1:
            t = "/".join(lv[1:])
        else:
            t = rand_topic(rng, alphabet)
        pool.append(t)
    return pool

def rand_filter(rng, pool, invalid=False):
    r = rng.random()
    if r < 0.12:
        return rng.choice(["#", "+", "+/#", "+/+", "$s/#", "$s/+", "/#", "/+", "+/", "+/+/#", "$s", "+/a", "a/#"])
    lv = rng.choice(pool).split("/")
    r = rng.random()
    if r < 0.25:
        lv = lv[:rng.randint(0, len(lv))] + ["#"]                          # parent level and everything below
    elif r < 0.35:
        lv = lv + [rng.choice(["+", "#", "+/#"])]
    elif r < 0.40 and len(lv) > 1:
        lv = lv[:-1]
    lv = "/".join(lv).split("/")
    for i in range(len(lv)):
        if lv[i] != "#" and rng.random() < 0.3:
            lv[i] = "+"
    if invalid:
        r = rng.random()
        if r < 0.4:
            lv.insert(rng.randint(0, len(lv) - 1) if len(lv) > 1 else 0, "#")   # `#` not last
        elif r < 0.6:
            lv[rng.randrange(len(lv))] = rng.choice(["a+", "+a", "#a", "a#", "$+", "$#"])
    return "/".join(lv)

def gen_with(rng, alphabet, invalid):
    pool = make_pool(rng, alphabet)
    ops = ["new"]
    tag = 0
    n = rng.choice([4, 10, 25, 60])
    w_add = rng.choice([0.3, 0.45, 0.6])
    for _ in range(rng.randint(2, n)):
        r = rng.random()
        if r < w_add:
            tag += 1
            t = rng.choice(pool) if rng.random() < 0.9 else rand_topic(rng, alphabet)
            ops.append(f"add :{t} {tag}")
        elif r < w_add + 0.17:
            r2 = rng.random()
            t = rng.choice(pool)
            if r2 < 0.2 and "/" in t:
                lv = t.split("/"); t = "/".join(lv[:rng.randint(1, len(lv) - 1)])   # inner node, maybe without message
            elif r2 < 0.27:
                t = rand_topic(rng, alphabet)
            elif r2 < 0.32:
                t = t + "/" + rng.choice(alphabet)                                  # below a leaf
            ops.append(f"rm :{t}")
        elif r < w_add + 0.19:
            ops.append("clear")
        elif r < w_add + 0.31:
            t = rng.choice(pool) if rng.random() < 0.8 else rand_topic(rng, alphabet)
            if rng.random() < 0.15 and "/" in t:
                t = t.rsplit("/", 1)[0]
            ops.append(f"get :{t}")
        elif r < w_add + 0.35:
            ops.append("iter")
        elif r < w_add + 0.38:
            ops.append(f"iterstop {rng.choice([1, 1, 2, 3, 5, 50])}")
        else:
            ops.append(f"match :{rand_filter(rng, pool, invalid)}")
    # final sweep: every pool topic, everything, and the two root wildcards
    ops += [f"get :{t}" for t in sorted(set(pool))]
    ops += ["iter", "match :#", "match :+/#", "match :$s/#"]
    if not invalid and rng.random() < 0.4:
        # the same kind of lookup from several goroutines at once
        ops.append("cmatch " + " ".join(":" + x for x in ["#", "+/#"] + [rand_filter(rng, pool, False) for _ in range(3)]))
    return ops

EXOTIC = ["a", "ab", "", "$", "$s", "b", "$$"]

def gen(rng):
    return gen_with(rng, EXOTIC if rng.random() < 0.1 else LEVELS, False)

def gen_invalid(rng):
    """inputs outside MQTT validity that the API accepts: topic names containing wildcard levels,
    filters with `#` before the last level or wildcards glued to other characters"""
    return gen_with(rng, LEVELS + ["+", "#", "+", "#"], True)

# ---------------------------------------------------------------- independent statement of the property

def mqtt_matches(filt, topic):
    """MQTT 3.1.1 / 5.0 section 4.7, written against the text (not against the trie)."""
    if topic[:1] == "$" and filt[:1] in ("+", "#"):          # 4.7.2
        return False
    fl, tl = filt.split("/"), topic.split("/")
    for i, f in enumerate(fl):
        if f == "#":
            return True                                       # caller guarantees `#` is last; includes the parent level
        if i >= len(tl):
            return False
        if f != "+" and f != tl[i]:
            return False
    return len(fl) == len(tl)

def hash_only_last(filt):
    fl = filt.split("/")
    return all(f != "#" for f in fl[:-1])

def parse_list(o):
    if not (o.startswith("[") and o.endswith("]")):
        return None
    body = o[1:-1]
    return body.split(",") if body else []

def predicate(ops, out):
    """last value per topic; get/match/iterate answer exactly from it. returns None or a reason."""
    if len(out) != len(ops) or (out and out[0].startswith("CRASH")):
        return "implementation crashed or hung: " + (out[0] if out else "")
    kept = {}
    for op, o in zip(ops, out):
        f = op.split(" ")
        if o in ("panic", "bad-op") or o.startswith("panic"):
            return f"`{op}` -> {o}"
        if f[0] == "new" or f[0] == "clear":
            kept = {}
        elif f[0] == "add":
            kept[f[1][1:]] = f[2]
        elif f[0] == "rm":
            kept.pop(f[1][1:], None)
        elif f[0] == "get":
            t = f[1][1:]
            want = f"{t}={kept[t]}" if t in kept else "none"
            if o != want:
                return f"`{op}` returned {o}, last retained value is {want}"
        elif f[0] in ("match", "iter"):
            got = parse_list(o)
            if got is None:
                return f"`{op}` -> unparsable {o}"
            if f[0] == "match":
                flt = f[1][1:]
                if not hash_only_last(flt):
                    continue                                  # not a topic filter; the property says nothing
                want = sorted(f"{t}={g}" for t, g in kept.items() if mqtt_matches(flt, t))
            else:
                want = sorted(f"{t}={g}" for t, g in kept.items())
            if got != want:
                extra = [x for x in got if x not in want]
                missing = [x for x in want if x not in got]
                dup = sorted(set(x for x in got if got.count(x) > 1))
                return f"`{op}` returned {o}; missing {missing} surplus {extra} duplicated {dup}"
        elif f[0] == "cmatch":
            if o == "concurrent-lookups-differ":
                return (f"`{op}`: the same lookups give other answers when they run at the same moment than when each runs alone "
                        "(readers share the store's read lock; a lookup must not depend on what other lookups are doing)")
            parts = o.split(" | ")
            if len(parts) != len(f) - 1:
                return f"`{op}` -> unparsable {o}"
            for a, part in zip(f[1:], parts):
                flt = a[1:]
                got = parse_list(part)
                if got is None:
                    return f"`{op}` -> unparsable {part}"
                if hash_only_last(flt) and got != sorted(f"{t}={g}" for t, g in kept.items() if mqtt_matches(flt, t)):
                    return f"`{op}`: lookup {flt} returned {part}"
        elif f[0] == "iterstop":
            n = int(f[1])
            want = min(max(n, 1), len(kept))
            if o != f"calls={want}":
                return f"`{op}` -> {o} with {len(kept)} kept messages"
    return None

def nontrivial(ops, out):
    """a kept topic was removed or replaced while a prefix-related topic (ancestor or descendant) was kept,
    and a later wildcard lookup returned at least one message"""
    kept = set()
    armed = False
    for op, o in zip(ops, out):
        f = op.split(" ")
        if f[0] in ("new", "clear"):
            kept = set()
        elif f[0] in ("add", "rm"):
            t = f[1][1:]
            if t in kept and any(k != t and (k.startswith(t + "/") or t.startswith(k + "/")) for k in kept):
                armed = True
            if f[0] == "add":
                kept.add(t)
            else:
                kept.discard(t)
        elif f[0] == "match" and armed and ("+" in f[1] or "#" in f[1]) and o not in ("[]", "panic"):
            return True
    return False

def streams(tier):
    n = 40000 if tier == "quick" else 1000000
    m = 8000 if tier == "quick" else 200000
    from . import c07wire
    return [(core.Stream("retained-store", "retained", gen, predicate, nontrivial, keep_prefix=1), n),
            (core.Stream("retained-invalid", "retained", gen_invalid, predicate, nontrivial, keep_prefix=1), m),
            c07wire.stream(tier)]

def _recognisers():
    from . import c07wire
    return {"retained_replay_retain_flag": c07wire.rec_f13}

RECOGNISERS = _recognisers()

def extra(r):
    """model-side search for the order-of-effects obligation: when the source delivers before it updates the retained store (or the
    SUBSCRIBE handler reads the store before it installs the subscription) the interleaving model has a losing schedule"""
    import os
    try:
        facts = open(os.path.join(core.LEAN, "GmqttVerif", "Generated", "PubOrder.lean")).read()
    except OSError:
        return
    def codes(name):
        m = re.search(r"def %s : List Nat :=\s*\n\s*\[(.*?)\]" % name, facts)
        return [int(x) for x in m.group(1).split(",") if x.strip()] if m else []
    for name, who in (("publishOrderN", "publishHandler"), ("willOrderN", "sendWillLocked")):
        c = codes(name)
        if 1 in c and 2 in c and c.index(2) < max(i for i, x in enumerate(c) if x == 1):
            body = (f"# server: {who} delivers the message BEFORE it updates the retained store (Generated/PubOrder.lean {name} = {c}).\n"
                    "# Schedule of Model/RetainRace.lean on which a subscriber loses an acknowledged retained message\n"
                    "# (theorem C07Order.deliver_then_store_can_lose: copies = 0, stored = true):\n"
                    "#stream retain-race-schedule\n"
                    "deliver     # publisher: deliverMessage iterates the subscriptions — the subscriber is not there yet\n"
                    "install     # subscriber (another connection's goroutine): subscriptionsDB.Subscribe\n"
                    "replay      # subscriber: retainedDB.GetMatchedMessages — the message is not stored yet\n"
                    "store       # publisher: retainedDB.AddOrReplace — kept from now on, the subscriber never got it\n")
            r.violation("retain-race", body, True, f"{who} delivers before the retained store is updated (losing schedule in the replay)")
    c = codes("subscribeOrderN")
    if 3 in c and 4 in c and c.index(4) < c.index(3):
        body = ("# server: subscribeHandler reads the retained store BEFORE it installs the subscription.\n#stream retain-race-schedule\n"
                "replay\nstore\ndeliver\ninstall\n")
        r.violation("retain-race", body, True, "subscribeHandler replays before it installs the subscription (losing schedule in the replay)")

def run(r):
    return core.standard_run(r, __import__(__name__, fromlist=["x"]))

RULE = ("random histories of add/rm/clear/get/match/iter/iterstop on retained/trie.NewStore() through its public API; topics and filters "
        "over the level alphabet {a, b, '', $s} (10% of cases: {a, ab, '', $, $s, b, $$}; filters also + and a trailing #), drawn from a per-case pool in which topics are prefixes, "
        "children and siblings of each other and of `$s/...` twins; removes of inner nodes (with and without message), re-adds, clears; "
        "a final sweep reads every pool topic, iterates, and matches #, +/#, $s/#. Second stream: the same with wildcard levels inside topic "
        "names and `#` before the last filter level / glued wildcards (inputs the API accepts but MQTT forbids). Each case is executed by the "
        "real store and by the Lean model and compared line by line; the Python predicate re-checks the property (dict + MQTT 4.7 matcher "
        "written from the text) on the implementation's outputs. non-trivial = distinct history in which a kept topic is removed or replaced "
        "while an ancestor or descendant topic is kept, and a later wildcard lookup returns at least one message")
ASSUME = ["sync.RWMutex makes each store method atomic (one model step per call)",
          "topics are sequences of Unicode code points in the model, bytes in Go; '/' and '$' are ASCII so splitting commutes with UTF-8 "
          "(generated inputs are ASCII)",
          "message identity = ghost tag in the payload; the store keeps the caller's *gmqtt.Message pointer (aliasing with the caller is not modelled)",
          "GetMatchedMessages' callback always returns true (the only caller of matchTopic); Iterate is modelled with an arbitrary stopping callback",
          "wire level (when the broker stores/clears/replays: publishHandler, subscribeHandler) is outside this component"]
