"""C07 (wire part) — what the broker stores / clears / replays on SUBSCRIBE."""
import collections
from .. import core, wire
from .c01 import mqtt_match

TOPICS = ["a", "a/b", "a/b/c", "b", "a/", "$x/a", "/", "a//b"]
FILTERS = ["a", "a/b", "a/+", "a/#", "#", "+", "+/b", "a/b/#", "$x/#", "$x/+", "+/+", "/#", "a/+/c", "b"]

def gen(rng):
    ops = [f"new mode={rng.choice(['overlap', 'onlyonce'])}"]
    vp = rng.choice([4, 5])
    ops.append(f"conn p cp v={vp} cs=1")
    subs = ["s", "t"][:rng.choice([1, 2])]
    ver = {}
    for c in subs:
        ver[c] = rng.choice([4, 5, 5])
        ops.append(f"conn {c} c{c} v={ver[c]} cs=1")
    pid, tag = 0, 0
    bound = {}            # topic alias -> topic, as registered on the publisher's connection (v5 only)
    def do_pub():
        nonlocal pid, tag
        tag += 1; pid += 1
        q = rng.choice([0, 1, 2])
        r = 1 if rng.random() < 0.8 else 0
        empty = r == 1 and rng.random() < (0.4 if bound else 0.25)
        t, a = rng.choice(TOPICS), ""
        if vp == 5 and rng.random() < 0.4:
            # v5 publisher: register an alias with the topic, or name the topic by a registered alias ONLY (empty
            # topic name on the wire) - storing, replacing and clearing must all act on the resolved topic (seed C07-3)
            k = rng.choice([1, 2, 3])
            if k in bound and rng.random() < 0.65:
                t = "~"
            else:
                bound[k] = t
            a = f" a={k}"
        ops.append(f"pub p {t} q={q} pid={pid if q else 0} r={r}{a} tag={'~' if empty else 'm' + str(tag)}")
        if q == 2:
            ops.append(f"rel p {pid}")
        for c in subs:
            ops.append(f"ack {c} puback all"); ops.append(f"ack {c} pubrec all"); ops.append(f"ack {c} pubcomp all")
    def do_sub():
        nonlocal pid
        c = rng.choice(subs)
        pid += 1
        ts = []
        for _ in range(rng.choice([1, 1, 2])):
            f = rng.choice(FILTERS)
            if rng.random() < 0.15:          # shared subscriptions work for v3.1.1 clients too
                f = "$share/g" + c + "/" + f      # one member per group: which member is picked is C11's business
            o = [f, str(rng.choice([0, 1, 2]))]
            if ver[c] == 5:
                if rng.random() < 0.4: o.append("rap")
                if rng.random() < 0.6: o.append("rh" + str(rng.choice([0, 1, 2])))
            ts.append("|".join(o))
        ops.append(f"sub {c} {pid} " + " ".join(ts))
        ops.append(f"ack {c} puback all"); ops.append(f"ack {c} pubrec all"); ops.append(f"ack {c} pubcomp all")
    for _ in range(rng.randint(1, 5)):
        do_pub()
    for _ in range(rng.randint(2, 8)):
        r = rng.random()
        if r < 0.6:
            do_sub()
        elif r < 0.9:
            do_pub()
        else:
            c = rng.choice(subs); pid += 1
            ops.append(f"unsub {c} {pid} {rng.choice(FILTERS)}")
    return ops

def predicate(ops, out):
    if len(out) != len(ops) or (out and out[0].startswith("CRASH")):
        return "implementation crashed or hung: " + (out[0] if out else "")
    kept = {}                 # topic -> (tag, qos)
    alias = {}                # (connection, alias) -> topic registered with it
    ver, cid = {}, {}
    have = collections.defaultdict(set)   # cid -> set of full filter names subscribed
    deferred = None
    for op, line in zip(ops, out):
        f = op.split()
        pre, conns = wire.parse_line(line)
        if "HANG" in line:
            return f"broker did not become quiescent after `{op}`"
        if f[0] == "conn":
            cid[f[1]] = f[2]; ver[f[1]] = int(next((x[2:] for x in f if x.startswith("v=")), "4"))
        elif f[0] == "pub":
            kv = dict(x.split("=", 1) for x in f if "=" in x)
            h = conns.get(f[1], ([], []))[0]
            if any(x.startswith(("disconnect", "closed")) for x in h):
                continue
            topic = f[2]
            if "a" in kv:
                if topic == "~":
                    topic = alias.get((f[1], kv["a"]))
                    if topic is None:
                        continue          # unknown alias: a protocol error, the broker must have closed (checked by C13)
                else:
                    alias[(f[1], kv["a"])] = topic
            if kv.get("r") == "1":
                if kv.get("tag", "~") == "~":
                    kept.pop(topic, None)
                else:
                    kept[topic] = (kv["tag"], int(kv.get("q", 0)))
        elif f[0] == "unsub":
            for tp in f[3:]:
                have[cid[f[1]]].discard(tp)
        elif f[0] == "sub":
            c = f[1]
            h, p = conns.get(c, ([], []))
            sa = next((x for x in h if x.startswith("suback(")), None)
            if sa is None:
                return f"no SUBACK for `{op}`"
            codes = sa[sa.index(",") + 1:-1].split("+")
            tops = [x for x in f[3:] if not x.startswith("id=")]
            lastopt = {tp.split("|")[0]: tp for tp in tops}
            want = collections.Counter()
            raps = collections.defaultdict(list)    # topic -> RAP flags of the filters of this SUBSCRIBE that replay it
            for tp0, code in zip(tops, codes):
                name = tp0.split("|")[0]
                own = tp0.split("|")
                ps = lastopt[name].split("|")
                if int(code) >= 128:
                    continue
                existed = name in have[cid[c]]
                have[cid[c]].add(name)
                rh = int(next((o[2:] for o in own[2:] if o.startswith("rh")), "0")) if ver[c] == 5 else 0
                if name.startswith("$share/"):
                    continue
                if rh == 2 or (rh == 1 and existed):
                    continue
                for topic, (tag, q) in kept.items():
                    if mqtt_match(name, topic):
                        want[(topic, tag, min(q, int(ps[1])))] += 1
                        raps[topic].append("rap" in ps[2:] and ver[c] == 5)
            got = collections.Counter()
            ids = [wire.pub_fields(x)["id"] for x in p if wire.pub_fields(x) and wire.pub_fields(x)["q"] > 0]
            if len(ids) != len(set(ids)):
                return f"`{op}`: two replayed copies share one packet identifier: {ids}"
            for x in p:
                pf = wire.pub_fields(x)
                if pf is None:
                    continue
                if pf["d"] != 0:
                    return f"`{op}`: retained replay carries DUP=1"
                got[(pf["t"], pf["tag"], pf["q"])] += 1
            if got != want:
                extra, missing = got - want, want - got
                return f"`{op}`: retained replay differs: unexpected {dict(extra)} missing {dict(missing)}"
            for x in p:
                pf = wire.pub_fields(x)
                if pf and pf["r"] != 1:
                    with_flag = sum(1 for y in p if (wire.pub_fields(y) or {}).get("t") == pf["t"] and wire.pub_fields(y)["r"] == 1)
                    if with_flag < sum(raps.get(pf["t"], [])):
                        return (f"`{op}`: retained message {pf['tag']} on {pf['t']} replayed with RETAIN=0 to a subscription that "
                                f"requested Retain As Published ({with_flag} of {sum(raps[pf['t']])} such copies carry the flag)")
                if pf and pf["r"] != 1 and deferred is None:
                    # recorded finding F13: keep looking, so that it never hides a different failure later in the history
                    deferred = f"`{op}`: retained message {pf['tag']} on {pf['t']} replayed to a new subscription with RETAIN=0"
    return deferred

def nontrivial(ops, out):
    """a SUBSCRIBE that replays >= 1 retained message, after a retained publish was replaced or cleared"""
    changed = False
    seen = set()
    for op, line in zip(ops, out):
        f = op.split()
        if f[0] == "pub" and " r=1" in op:
            if f[2] in seen or f[2] == "~":
                changed = True
            seen.add(f[2])
        if f[0] == "sub" and changed and "publish(" in line:
            return True
    return False

def rec_f13(info):
    """F13: retained replay on SUBSCRIBE carries RETAIN=0 unless Retain-As-Published was requested"""
    return info["kind"] == "predicate" and "replayed to a new subscription with RETAIN=0" in (info.get("why") or "")

def stream(tier):
    n = 500 if tier == "quick" else 15000
    st = core.Stream("broker-retained", "broker", gen, predicate, nontrivial, canon=wire.canon, keep_prefix=1,
                     hint=wire.shared_hints)
    st.compare_known = True       # the model mirrors F13, so a case that shows F13 must still agree with it line by line
    return (st, n)
