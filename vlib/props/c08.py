"""C08 — the will message is published exactly when, and only when, it should be (wire level, real timers)."""
from .. import core, wire

PROP = "C08"
MODULE = "GmqttVerif.Properties.C08"
THEOREMS = ["GmqttVerif.Broker.will_on_unregister",
            "GmqttVerif.Broker.disconnect_cleans_will",
            "GmqttVerif.Broker.will_suppressed_by_normal_disconnect",
            "GmqttVerif.Broker.no_pending_will_online",
            "GmqttVerif.Broker.will_cancelled_by_resume",
            "GmqttVerif.Broker.will_fires_once_sleep",
            "GmqttVerif.Broker.will_fires_once_terminate",
            "GmqttVerif.Broker.will_content",
            # every schedule of the delayed-will goroutine against its client's connection events (Model/WillTimer.lean),
            # tied to server/server.go by the regenerated facts (harness/cmd/extract/willtimer.go)
            "GmqttVerif.WillTimer.no_orphan_will", "GmqttVerif.WillTimer.resume_cancels_pending_will",
            "GmqttVerif.WillTimer.will_published_only_if_due", "GmqttVerif.WillTimer.will_published_at_most_once",
            "GmqttVerif.WillTimer.no_pending_will_while_online", "GmqttVerif.WillTimer.as_is_orphans_will",
            "GmqttVerif.WillTimer.as_is_resumed_will_published", "GmqttVerif.WillTimer.fixed_resumed_will_not_published",
            "GmqttVerif.WillTimer.code_shape", "GmqttVerif.WillTimer.will_table_sites", "GmqttVerif.WillTimer.code_is_repaired",
            "GmqttVerif.WillTimer.no_orphan_will_code", "GmqttVerif.WillTimer.will_published_only_if_due_code"]
EXTRA_MODULES = ["GmqttVerif.Properties.C08Timer"]
NEEDS_FACTS = ["WillTimer"]
COMPS = ["broker"]

EXPECTED_WILL_SITES = [
    "sessionTerminatedLocked: if w, ok := srv.willMessage[clientID]; ok { w.signal(true) }",
    "registerClient: if w, ok := srv.willMessage[client.opts.ClientID]; ok { w.signal(false) }",
    "registerClient: if w, ok := srv.willMessage[client.opts.ClientID]; ok { w.signal(true) }",
    "unregisterClient: srv.willMessage[client.opts.ClientID] = wm"]

def extra(r):
    """the regenerated facts say what the delayed-will goroutine does with srv.willMessage. When it deletes the entry
    unconditionally the theorems above no longer build; the failing history then is the F16 schedule, which the model
    (`as_is_resumed_will_published`) and a widened-window run of the real code (findings/F16-*.md) both exhibit."""
    import os, re
    try:
        facts = open(os.path.join(core.LEAN, "GmqttVerif", "Generated", "WillTimer.lean")).read()
    except OSError:
        return
    # readable form of `will_table_sites`: which statements touch the table of pending wills now
    ms = re.search(r"def willSites : List String :=\s*\n\s*(\[.*\])", facts)
    if ms:
        try:
            import json
            sites = json.loads(ms.group(1))
        except ValueError:
            sites = None
        if sites is not None and sites != EXPECTED_WILL_SITES:
            new = [x for x in sites if x not in EXPECTED_WILL_SITES]
            gone = [x for x in EXPECTED_WILL_SITES if x not in sites]
            body = ("# the statements of server/server.go that touch srv.willMessage / signal a will are no longer the four that\n"
                    "# Model/WillTimer.lean transcribes (theorem WillTimer.will_table_sites)\n"
                    + "".join(f"# new or changed: {x}\n" for x in new) + "".join(f"# no longer there: {x}\n" for x in gone))
            r.violation("will-sites", body, False, "the sites that touch the pending-will table changed")
    m = re.search(r"def willGoroutineSteps : List String :=\s*\n\s*(\[.*\])", facts)
    if m and "delete-unconditional" in m.group(1):
        body = ("# the delayed-will goroutine of server/server.go (unregisterClient) removes srv.willMessage[clientID] unconditionally:\n"
                "# on the schedule below a will is published although its session was resumed inside the Will Delay Interval\n"
                "# (Model/WillTimer.lean, theorem as_is_resumed_will_published: published = [1], ended = [])\n"
                "#   steps read from the source: " + m.group(1) + "\n"
                "#stream will-timer-schedule\n"
                "discWill      # connection 1 of client c ends, will 0 delayed\n"
                "resume        # connection 2 resumes the session: will 0 is signalled `false`\n"
                "wake 0        # goroutine 0 leaves the select, has not yet obtained srv.mu\n"
                "discWill      # connection 2 ends, will 1 delayed: srv.willMessage[c] = will 1\n"
                "finish 0      # goroutine 0 now runs its tail: delete(srv.willMessage, c) removes will 1's entry\n"
                "resume        # connection 3 resumes inside the delay: finds no entry, cancels nothing\n"
                "fire 1        # will 1's timer fires\n"
                "finish 1      # will 1 is published\n")
        r.violation("will-timer-f16", body, True, "delayed-will goroutine deletes another connection's will entry (schedule in the replay)")

def gen_raised(rng):
    """family: the will delay is longer than the session expiry given at CONNECT, and the DISCONNECT (0x04, keeps the will)
    raises the expiry: the will is then due after the DELAY, not after the old expiry; observed at 0.7 s, 1.5 s and 4.7 s"""
    ops = [f"new mode=onlyonce se=600", "conn p cp v=5 cs=1", "sub p 1 w/#|1|rap"]
    ops.append(f"conn x1 cx v=5 cs={rng.choice([0, 1])} se=1 will=w/x,{rng.choice([0, 1])},{rng.choice([0, 1])},{rng.choice([2, 3])},W1")
    ops.append(f"disc x1 code=4 se={rng.choice([300, 60])}")
    ops += ["sleep 700", "sleep 800"]
    if rng.random() < 0.4:
        ops.append("conn y1 cx v=5 cs=0 se=300")      # re-attached before the delay has passed: never published
    ops += ["sleep 3200", "ack p puback all", "sub p 2 w/x|1", "ack p puback all"]
    return ops

# stratified: the way the connection ends x what happens during / after the will delay are walked through systematically (fixed
# shuffled order of the 70 combinations; a quick run of 80 cases covers every one), the rest is random
import itertools as _it, random as _rnd
_GRID = list(_it.product(["disc", "disc4", "close", "takeover0", "takeover1", "term", "garbage", "keepalive", "close", "disc"],
                         ["wait", "wait", "resume", "fresh", "term", "partial", "partial2"]))
_rnd.Random(8).shuffle(_GRID)
_k = [0]

def gen(rng):
    if rng.random() < 0.12:
        return gen_raised(rng)
    _end, _after = _GRID[_k[0] % len(_GRID)]
    _k[0] += 1
    cfg_se = rng.choice([600, 600, 1])
    ops = [f"new mode={rng.choice(['overlap', 'onlyonce'])} se={cfg_se}", "conn p cp v=5 cs=1", "sub p 1 w/#|1|rap"]
    v = rng.choice([4, 5, 5])
    cs = rng.choice([0, 0, 1])
    wq, wr = rng.choice([0, 1, 2]), rng.choice([0, 1])
    delay = rng.choice([0, 0, 2, 2, 2]) if v == 5 else 0
    line = f"conn x1 cx v={v} cs={cs}"
    se = None
    if v == 5:
        se = rng.choice([None, 0, 1, 300, 300])
        if se is not None:
            line += f" se={se}"
    line += f" will=w/x,{wq},{wr},{delay},W1"
    end = _end
    if end == "keepalive":
        line += " ka=1"                 # read deadline = (1/2 + 1) s = 1 s after the last packet (integer arithmetic of the code)
    ops.append(line)
    if rng.random() < 0.3 and end != "keepalive":
        ops.append("ping x1")
    if end == "keepalive":
        # the connection ends because the client stays silent past its keep-alive: 0.5 s of silence is survived (a PINGREQ then
        # pushes the deadline out), 1.5 s is not — the will is due from the instant the deadline ran out
        if rng.random() < 0.5:
            ops.append("sleep 500"); ops.append("ping x1")
        ops.append("sleep 1500")
    elif end == "disc" and v == 5 and se and rng.random() < 0.5:
        # the session store fails while the DISCONNECT's new Session Expiry Interval is written (2nd persistence call of the handler,
        # after the Get): the DISCONNECT is still a normal DISCONNECT — no will (seed C08-6)
        ops[0] += " pe=faulty"
        ops += ["api failat 2", f"disc x1 se={rng.choice([300, 60])}", "api failat 0"]
    elif end == "disc":
        ops.append("disc x1" + (f" se={rng.choice([0, 300])}" if v == 5 and rng.random() < 0.3 else ""))
    elif end == "disc4":
        # Disconnect with Will Message, possibly raising/lowering the session expiry at the same time
        ops.append(("disc x1 code=4" + (f" se={rng.choice([1, 300])}" if se and rng.random() < 0.6 else "")) if v == 5 else "close x1")
    elif end == "close":
        ops.append("close x1")
    elif end == "takeover0":
        ops.append(f"conn x2 cx v={v} cs=0" + (" se=300" if v == 5 else ""))
    elif end == "takeover1":
        ops.append(f"conn x2 cx v={v} cs=1")
    elif end == "term":
        ops.append("api term cx")
    else:
        ops.append("raw x1 ff00")       # reserved packet type: malformed
    if ops[-1].startswith("disc ") and rng.random() < 0.4:
        # the DISCONNECT leaves pipelined behind 1-6 QoS 0 publishes in one write and the socket closes at once: a DISCONNECT
        # that was sent counts, however the broker's reader and handler goroutines interleave (seed C08-3)
        ops[-1] += f" pre={rng.choice([1, 2, 6])}"
    # what happens during / after the will delay
    after = _after
    if after == "partial":
        ops.append("sleep 700")
        after = rng.choice(["wait", "resume", "fresh"])
    elif after == "partial2":
        # observe in the middle of a 2 s delay as well (1.5 s): too early for the will unless the session expired at 1 s
        ops.append("sleep 700"); ops.append("sleep 800")
        after = rng.choice(["wait", "wait", "resume"])
    if after == "resume":
        ops.append(f"conn y1 cx v={v} cs=0" + (" se=300" if v == 5 else ""))
    elif after == "fresh":
        ops.append(f"conn y1 cx v={v} cs=1")
    elif after == "term":
        ops.append("api term cx")
    ops.append("sleep 3200")
    ops.append("ack p puback all")
    ops.append("sub p 2 w/x|1")      # a retained will shows up here
    ops.append("ack p puback all")
    return ops

def predicate(ops, out):
    if len(out) != len(ops) or (out and out[0].startswith("CRASH")):
        return "implementation crashed or hung: " + (out[0] if out else "")
    cfg_se = 600
    will = None            # dict(q, r, delay, tag, v)
    state = "none"         # none | armed (connection up) | pending(due) | fired | cancelled
    expiry = 0
    now = 0.0              # scenario clock in seconds (sleep ops only)
    due = None
    fired_at = []
    online = None
    ka_int, ka_dead = None, None     # keep-alive of the online connection: interval (s) and scenario time its read deadline runs out
    retained_expected = None
    for op, line in zip(ops, out):
        if "HANG" in line:
            return f"broker did not become quiescent after `{op}`"
        f = op.split()
        kv = dict(x.split("=", 1) for x in f if "=" in x)
        pre, conns = wire.parse_line(line)
        wills_here = [wire.pub_fields(x) for x in conns.get("p", ([], []))[1]]
        wills_here = [w for w in wills_here if w and w["t"] == "w/x" and not (f[0] == "sub")]
        def end_connection(suppress):
            nonlocal state, due
            if will is None or state != "armed":
                return
            if suppress:
                state = "cancelled"; return
            d = min(will["delay"], expiry)
            if d == 0 or expiry == 0:
                state = "due-now"
            else:
                state = "pending"; due = now + d
        if f[0] == "new":
            cfg_se = int(kv.get("se", 7200))
        elif f[0] == "conn" and f[2] == "cx":
            v = int(kv.get("v", 4)); cs = kv.get("cs", "1") == "1"
            sp = any(x.startswith("connack(sp=1") for x in conns.get(f[1], ([], []))[0])
            if online is not None:       # take-over
                end_connection(False)
            if state == "pending":
                if sp:
                    state = "cancelled"          # re-attached to the session before the delay passed
                else:
                    state = "due-now"            # the session ended
            online = f[1]
            k = int(kv.get("ka", 0))
            if v == 5: k = min(k, 300)
            ka_int = (k // 2 + k) if k else None
            ka_dead = now + ka_int if ka_int else None
            new_will = None
            if "will" in kv:
                w = kv["will"].split(",")
                new_will = dict(q=int(w[1]), r=int(w[2]), delay=int(w[3]) if v == 5 else 0, tag=w[4], v=v)
            # a will that is due now must be delivered in this very step
            if state == "due-now":
                if not wills_here:
                    return f"`{op}`: the will of the previous connection must be published when its session ends, nothing arrived"
            if state == "due-now":
                pass
            elif wills_here and state != "due-now":
                return f"`{op}`: will published {wills_here} although it must not be (state {state})"
            if state == "due-now":
                state = "fired"; fired_at.append(now)
            if new_will is not None:
                will, state = new_will, "armed"
            elif state not in ("fired",):
                will, state = None, "none"
            expiry = (min(int(kv["se"]), cfg_se) if "se" in kv else 0) if v == 5 else (0 if cs else cfg_se)
            continue
        elif f[0] == "disc" and f[1] == online:
            v5 = will is not None and will["v"] == 5
            code = int(kv.get("code", 0))
            proto_err = v5 and "se" in kv and expiry == 0 and int(kv["se"]) != 0   # expiry 0 -> non-zero: protocol error
            if v5 and "se" in kv and not proto_err:
                expiry = int(kv["se"])
            end_connection(suppress=(code == 0 and not proto_err))
            online = None
        elif f[0] in ("close", "raw") and f[1] == online:
            end_connection(False); online = None
        elif f[0] == "api" and f[1] == "term":
            if online is not None:
                expiry = 0
                end_connection(False); online = None
            elif state == "pending":
                state = "due-now"
        elif f[0] == "ping" and f[1] == online and ka_int:
            ka_dead = now + ka_int
        elif f[0] == "sleep":
            dt = int(f[1]) / 1000.0
            if online is not None and ka_dead is not None and now + dt >= ka_dead + 0.4:
                # the client stayed silent past its keep-alive: the connection ended (without DISCONNECT) when the deadline ran out
                end_t = now + dt
                now = ka_dead
                end_connection(False)
                closed_here = any("closed" in conns.get(online, ([], []))[0] for _ in [0])
                if not closed_here:
                    return f"`{op}`: connection {online} was silent for longer than 1.5 x its keep-alive and is still open"
                online, ka_dead = None, None
                dt = end_t - now
            now += dt
            if state == "pending" and due is not None and now >= due + 0.4:
                state = "due-now"
            elif state == "pending" and due is not None and now > due - 0.4:
                state = "either"
        if f[0] == "sub":
            if f[1] == "p" and f[2] == "2":
                got = [wire.pub_fields(x) for x in conns.get("p", ([], []))[1]]
                got = [g for g in got if g and g["t"] == "w/x"]
                want = bool(fired_at) and will is not None and will["r"] == 1
                if want and not got:
                    return f"`{op}`: the will had RETAIN=1 and was published, but it is not stored as retained message for w/x"
                if not want and got:
                    return f"`{op}`: retained message {got} on w/x although no retained will was published"
            continue
        if state == "due-now":
            if not wills_here:
                return f"`{op}`: the will must be published now (connection ended without a suppressing DISCONNECT; delay/session over), nothing arrived"
            state = "fired"; fired_at.append(now)
        elif state == "either":
            if wills_here:
                state = "fired"; fired_at.append(now)
            else:
                state = "pending"
            wills_here = []
        elif wills_here:
            return f"`{op}`: will published {[w['tag'] for w in wills_here]} although it must not be (state {state})"
        if len(wills_here) > 1 and will is not None:
            return f"`{op}`: will published {len(wills_here)} times"
        for w in wills_here:
            if w["tag"] != will["tag"] or w["q"] != min(will["q"], 1) or w["r"] != will["r"]:
                return f"`{op}`: will arrived as tag={w['tag']} q={w['q']} r={w['r']}, registered tag={will['tag']} q={will['q']} retain={will['r']}"
    if state == "pending" and due is not None and now > due + 0.4:
        # (only when the scenario clock really is past the deadline: a shrunk case may end earlier than the generated ones do)
        return "the will was still pending at the end of the scenario although its delay has passed"
    return None

def nontrivial(ops, out):
    return any("will=" in o and o.split("will=")[1].split(",")[3] != "0" for o in ops) or any("t=w/x" in l for l in out)

def streams(tier):
    n = 80 if tier == "quick" else 1400
    st = core.Stream("broker-will", "broker", gen, predicate, nontrivial, canon=wire.canon, keep_prefix=1, hint=wire.shared_hints, timeout=600)
    st.timed = True      # real waits: a failure must show again when its case is re-run (see core.correspond)
    return [(st, n)]

def run(r):
    return core.standard_run(r, __import__(__name__, fromlist=["x"]))

RULE = ("the way the connection ends (DISCONNECT 0x00 / 0x04 with and without pipelined packets, abrupt close, take-over with and without clean start, TerminateSession, a malformed packet, KEEP-ALIVE TIMEOUT after 1.5 x the interval — the read deadline is modelled in the Lean driver as an environment step) x what happens during / after the delay, walked through systematically (80 cases cover the grid); wire scenarios with real timers: will settings (QoS, retain, delay 0/2 s, v3.1.1/v5) x every way a connection ends (DISCONNECT 0x00, 0x04, "
        "close, malformed packet, take-over with/without clean start, TerminateSession) x session expiry vs delay x what happens during the delay "
        "(nothing, resume, fresh session, termination); an independent subscriber with Retain-As-Published records arrivals; a late subscriber "
        "checks the retained store. non-trivial = a delayed will, or a will that is published")
ASSUME = ["timers: 2 s delays are observed with sleeps of 0.7 s (not yet) and 3.2 s (fired); arrivals within +-0.4 s of the deadline are accepted either way",
          "delayed-will goroutine interleavings (F16) are covered by the model only"]
