"""C09 — durable (redis) sessions survive a broker crash at any point.

Streams (all against harness/internal/respfake, an in-process RESP2 server with a command journal):
  redis-cmds    random redis commands: respfake vs the Lean command semantics (Model/Redis.lean)
  redis-codec   Elem / Message / Subscription encodings: real encoder+decoder vs Model/ElemCodec.lean
  redis-stores  the four redis stores through their Go API: the commands every operation issues (= Model `cmds`),
                and `restart all`: for EVERY prefix of the write journal fresh stores are opened on the dataset the way
                server.init does; compared with Model `recover`
  redis-crash   a real broker with persistence.type=redis driven over the wire; for EVERY prefix k of the journal a fresh
                broker is started on the dataset after k commands and observed (sessions, subscriptions, redelivery on a
                Clean-Start-0 reconnect, QoS 2 duplicate detection); compared with `recover` applied by the Lean oracle to
                the same journal prefix; the predicate re-checks the property statement on the observations.
"""
import re
from .. import core, wire

PROP = "C09"
MODULE = "GmqttVerif.Properties.C09"
THEOREMS = ["GmqttVerif.C09.elem_roundtrip", "GmqttVerif.C09.message_roundtrip", "GmqttVerif.C09.subscription_roundtrip",
            "GmqttVerif.C09.session_roundtrip", "GmqttVerif.C09.f30_length_prefix_wraps", "GmqttVerif.C09.recover_refines",
            "GmqttVerif.C09.crash_consistent", "GmqttVerif.C09.subscribe_meaning", "GmqttVerif.C09.unsubscribe_meaning",
            "GmqttVerif.C09.enqueue_meaning", "GmqttVerif.C09.ack_meaning", "GmqttVerif.C09.qos2_meaning",
            "GmqttVerif.C09.terminate_meaning",
            # C10, redis backend (Properties/C10Redis.lean): refinement of the memory queue, proved for the single-entry operations
            "GmqttVerif.C10Redis.redis_refines_mem_init", "GmqttVerif.C10Redis.redis_refines_mem_add",
            "GmqttVerif.C10Redis.redis_refines_mem_remove", "GmqttVerif.C10Redis.redis_refines_mem_replace",
            "GmqttVerif.C10Redis.redis_refines_mem_close",
            "GmqttVerif.C10Redis.sim_new"]
from . import c10 as _c10
COMPS = ["redis", "queue"]
GO_EXTRA = ["broker", "queue_redis"]

# ------------------------------------------------------------------------------------------------ redis-cmds

KEYS = ["k", "k2", "queue:c", "sub:c", "session:c", "a%20b"]
FIELDS = ["f", "g", "t/1", "~", "%00"]
VALS = ["v", "w", "~", "%00%FF", "v", "x*y"]

def gen_cmds(rng):
    ops = ["new"]
    for _ in range(rng.randint(5, 60)):
        k = rng.choice(KEYS)
        r = rng.random()
        if r < 0.14:
            ops.append(f"RPUSH {k} {rng.choice(VALS)}")
        elif r < 0.26:
            n = rng.randint(1, 3)
            ops.append(f"HSET {k} " + " ".join(f"{rng.choice(FIELDS)} {rng.choice(VALS)}" for _ in range(n)))
        elif r < 0.34:
            ops.append(f"HDEL {k} " + " ".join(rng.choice(FIELDS) for _ in range(rng.randint(1, 3))))
        elif r < 0.44:
            ops.append(f"LREM {k} {rng.choice([1, 1, 1, 0, 2, -1, -2])} {rng.choice(VALS)}")
        elif r < 0.54:
            ops.append(f"LSET {k} {rng.choice([0, 1, 2, 3, -1, -2, -5, 7])} {rng.choice(VALS)}")
        elif r < 0.66:
            ops.append(f"LRANGE {k} {rng.choice([0, 0, 1, 2, -1, -2, -7, 5])} {rng.choice([0, 1, 2, -1, -1, -2, 9, -9])}")
        elif r < 0.72:
            ops.append(f"LLEN {k}")
        elif r < 0.78:
            ops.append(f"DEL {k}")
        elif r < 0.86:
            ops.append(f"HGETALL {k}")
        elif r < 0.94:
            ops.append(f"HMGET {k} " + " ".join(rng.choice(FIELDS) for _ in range(rng.randint(1, 3))))
        else:
            ops.append("dump")
    ops.append("dump")
    return ops

def nontrivial_cmds(ops, out):
    """a command failed with WRONGTYPE / index error, or a key vanished because it became empty"""
    return any(o.startswith("-") for o in out)

# ------------------------------------------------------------------------------------------------ redis-codec

STRS = ["~", "a", "a/b", "t/%00", "%C3%A9", "@300", "$share/g/t", "x%2Cy"]

def rand_msg(rng, big=False):
    payload = rng.choice(["~", "p", "hello", "@100", "%00%01"])
    topic = rng.choice(["t", "a/b", "~", "@40"])
    if big:
        w = rng.choice(["payload", "topic", "ct"])
        n = rng.choice([65535, 65536, 65537, 70000])
        if w == "payload": payload = f"@{n}"
        elif w == "topic": topic = f"@{n}"
    sids = "-" if rng.random() < 0.6 else "+".join(str(rng.choice([0, 1, 127, 128, 16383, 16384, 2097152, 268435455, 268435456, 4294967295]))
                                                   for _ in range(rng.randint(1, 3)))
    ups = "-" if rng.random() < 0.6 else ";".join(f"{rng.choice(['k', '~', 'k%00'])}|{rng.choice(['v', '~', '@20'])}" for _ in range(rng.randint(1, 3)))
    ct = rng.choice(["~", "~", "text/plain"])
    if big and rng.random() < 0.2: ct = "@65536"
    return (f"{rng.choice([0, 1])} {rng.choice([0, 1, 2, 3, 255])} {rng.choice([0, 1])} {topic} {payload} {rng.choice([0, 1, 255, 256, 65535])} "
            f"{ct} {rng.choice(['~', '~', 'cd', '%00'])} {rng.choice([0, 0, 1, 4294967295])} {rng.choice([0, 1, 255])} "
            f"{rng.choice(['~', '~', 'r/t'])} {sids} {ups}")

ZERO_TIME = 18446744011573954816

def gen_codec(rng):
    ops = ["new"]
    for _ in range(rng.randint(3, 12)):
        r = rng.random()
        big = rng.random() < 0.03
        if r < 0.3:
            ops.append("emsg " + rand_msg(rng, big))
        elif r < 0.55:
            at = rng.choice([0, 1, 1790000000, 2**32, 2**64 - 1])
            ex = rng.choice([ZERO_TIME, ZERO_TIME, 1, 1790007200, 2**63])
            if rng.random() < 0.7:
                ops.append(f"eelem {at} {ex} p " + rand_msg(rng, big))
            else:
                ops.append(f"eelem {at} {ex} r {rng.choice([0, 1, 255, 256, 65535])}")
        elif r < 0.75:
            ops.append(f"esub {rng.choice(['~', '~', 'g', '@20'])} {rng.choice(['t', 'a/+', '#', '~', '@300'] + (['@65536'] if big else []))} "
                       f"{rng.choice([0, 1, 268435455, 4294967295])} {rng.choice([0, 1, 2])} {rng.choice([0, 1])} {rng.choice([0, 1])} {rng.choice([0, 1, 2])}")
        else:
            # decoders on arbitrary bytes: what a restarted broker may find in the store
            n = rng.choice([0, 1, 5, 18, 19, 20, 25, 40])
            bs = "".join("%%%02X" % rng.choice([0, 0, 0, 1, 1, 2, 3, 8, 9, 11, 38, 97, 255]) for _ in range(n)) or "~"
            ops.append(f"{rng.choice(['dmsg', 'delem', 'dsub'])} {bs}")
    return ops

def pred_codec(ops, out):
    """decode(encode x) = x for every x within the format's limits (all length-prefixed fields < 64 KiB, subscription identifiers < 2^28)"""
    if len(out) != len(ops):
        return "driver crashed"
    for op, o in zip(ops, out):
        f = op.split()
        if f[0] in ("emsg", "eelem", "esub") and not o.endswith("rt=ok"):
            fields = f[1:] if f[0] != "eelem" else f[4:]
            over = any(t.startswith("@") and int(t[1:]) > 65535 for t in fields)
            sids = [int(x) for x in (fields[11].split("+") if f[0] != "esub" and len(fields) > 11 and fields[11] != "-" else [])]
            if over:
                return f"`{f[0]}` with a field of 64 KiB or more does not survive encode/decode ({o.split()[-1]})"
            if any(s > 268435455 for s in sids):
                continue      # a subscription identifier above the protocol maximum: outside the format's limits
            return f"`{op[:120]}` does not survive encode/decode ({o.split()[-1]})"
        if o in ("panic", "bad-op"):
            return f"`{op[:80]}` -> {o}"
    return None

def nontrivial_codec(ops, out):
    """a decoder rejected its input, or a value with optional properties round-tripped"""
    return any(o == "err" for o in out) or any(o.endswith("rt=ok") and ("%26" in o or "%0B" in o) for o in out)

# ------------------------------------------------------------------------------------------------ redis-stores

CIDS = ["c1", "c2", "sub:x", "bus", "u:b", "s"]
FILTERS = ["t/1", "t/2", "a/+", "#"]

def gen_stores(rng):
    """a store-level history shaped like what the broker does for a few clients, then `restart all`"""
    ops = [f"new max={rng.choice([1000, 1000, 3])} ie={rng.choice([0, 0, 30])}"]
    cids = rng.sample(CIDS, rng.randint(1, 3))
    state = {c: dict(sess=False, init=False, pid=0, infl=[], uids=[]) for c in cids}
    tag = 0
    for _ in range(rng.randint(4, 22)):
        c = rng.choice(cids)
        s = state[c]
        r = rng.random()
        if not s["sess"] or r < 0.06:
            # registration of a new session: (removal of the old one,) queue Init clean, unack Init clean, session Set
            if s["sess"] and rng.random() < 0.7:
                ops += [f"srem {c}", f"qclean {c}", f"sunall {c}"]
            ops += [f"sunall {c}", f"qinit {c} 1 4294967295", f"uinit {c} 1",
                    f"sset {c} will={rng.choice(['-', '-', 'w/t'])} wd={rng.choice([0, 5])} exp={rng.choice([30, 300, 0])}", f"qri {c} 100"]
            s.update(sess=True, init=True, infl=[], uids=[])
        elif r < 0.2:
            f = rng.choice(FILTERS)
            share = f" share={rng.choice(['g', 'h'])}" if rng.random() < 0.15 else ""
            ops.append(f"ssub {c} {f}{share} q={rng.choice([0, 1, 2])} nl={rng.choice([0, 1])} rap={rng.choice([0, 1])} rh={rng.choice([0, 1, 2])} id={rng.choice([0, 0, 7])}")
        elif r < 0.28:
            f = rng.choice(FILTERS)
            ops.append(f"sunsub {c} {('$share/' + rng.choice(['g', 'h']) + '/' + f) if rng.random() < 0.15 else f}")
        elif r < 0.5:
            tag += 1
            ops.append(f"qadd {c} m{tag} {rng.choice([0, 1, 1, 2])} {rng.choice(['none', 'none', 'none', 'future', 'past'])} {rng.choice([0, 3])}")
        elif r < 0.64:
            k = rng.choice([1, 2, 3])
            ids = list(range(s["pid"] + 1, s["pid"] + 1 + k)); s["pid"] += k
            s["infl"] = (s["infl"] + ids)[-6:]
            ops.append(f"qread {c} " + ",".join(map(str, ids)))
        elif r < 0.74 and s["infl"]:
            ops.append(f"qrm {c} {rng.choice(s['infl'])}")
        elif r < 0.8 and s["infl"]:
            ops.append(f"qrep {c} {rng.choice(s['infl'])}")
        elif r < 0.86:
            i = rng.choice([1, 2, 3])
            s["uids"].append(i)
            ops.append(f"uset {c} {i}")
        elif r < 0.9 and s["uids"]:
            ops.append(f"urm {c} {rng.choice(s['uids'])}")
        elif r < 0.94:
            # reconnect without clean start
            ops += [f"qinit {c} 0 4294967295", f"uinit {c} 0", f"sset {c} will=- wd=0 exp={rng.choice([30, 300])}", f"qri {c} 100", f"qri {c} 100"]
        elif r < 0.97:
            ops.append(rng.choice([f"sget {c}", "siter", "slist", f"sexp {c} {rng.choice([0, 60])}"]))
        else:
            # session removal (the order of the patched removeSessionLocked)
            ops += [f"srem {c}", f"qclean {c}", f"sunall {c}"]
            s.update(sess=False)
    ops.append("restart all")
    return ops

JRE = re.compile(r"^J\[([^\]]*)\]")

def writes_of(o):
    m = JRE.match(o)
    if not m or not m.group(1):
        return 0
    n = 0
    for c in m.group(1).split(";"):
        name = c.split(",", 1)[0]
        if name in ("del", "hset", "hdel", "rpush", "lset", "lrem") and not c.endswith("!"):
            n += 1
    return n

def split_top(s, sep=","):
    out, depth, cur = [], 0, ""
    for ch in s:
        if ch in "[{(":
            depth += 1
        elif ch in "]})":
            depth -= 1
        if ch == sep and depth == 0:
            out.append(cur); cur = ""
        else:
            cur += ch
    if cur:
        out.append(cur)
    return out

def parse_restart(line):
    """`W=n k0{..} k1{..}` -> (n, {k: body})"""
    toks = line.split(" ")
    n = int(toks[0][2:]) if toks and toks[0].startswith("W=") else -1
    obs = {}
    for t in toks[1:]:
        m = re.match(r"^k(\d+)\{(.*)\}$", t)
        if m:
            obs[int(m.group(1))] = m.group(2)
    return n, obs

def full_name(f):
    kv = dict(x.split("=", 1) for x in f if "=" in x)
    pos = [x for x in f if "=" not in x]
    flt = pos[2]
    return ("$share/" + kv["share"] + "/" + flt) if kv.get("share") else flt, kv

def pred_stores(ops, out):
    """store-level reading of the property: an operation counts as acknowledged when its call returned. For every prefix k
    of the write journal the re-opened stores must come up, hold every session set and not removed, exactly the
    subscriptions subscribed and not unsubscribed, every QoS>0 element added (and neither acknowledged nor reported
    dropped), and every unack id set and not removed. What the operation in progress at k touches is free."""
    if len(out) != len(ops):
        return "driver crashed: " + (out[0] if out else "")
    for op, o in zip(ops, out):
        if op.startswith("qread") and o.endswith("panic"):
            continue          # Read before the replay has finished may refuse (the stores' documented contract)
        if o.startswith(("panic", "bad-op")) or o.endswith((" err", " panic")):
            return f"`{op}` -> {o[-60:]}"
    if not ops[-1].startswith("restart"):
        return None
    W, obs = parse_restart(out[-1])
    # facts: (start, end, kind, cid, key, value)
    facts, J = [], 0
    tagq = {}
    infl = {}      # cid -> {id: tag}
    for op, o in zip(ops[1:-1], out[1:-1]):
        f = op.split()
        n = writes_of(o)
        s, e = J, J + n
        J = e
        c = f[1] if len(f) > 1 else ""
        if f[0] == "sset":
            kv = dict(x.split("=", 1) for x in f if "=" in x)
            facts.append((s, e, "sess+", c, None, kv.get("exp", "0")))
        elif f[0] == "srem":
            facts.append((s, e, "sess-", c, None, None))
        elif f[0] == "ssub":
            name, kv = full_name(f)
            facts.append((s, e, "sub+", c, name, (kv.get("q", "0"), kv.get("nl", "0"), kv.get("rap", "0"), kv.get("rh", "0"), kv.get("id", "0"))))
        elif f[0] == "sunsub":
            facts.append((s, e, "sub-", c, f[2], None))
        elif f[0] == "sunall":
            facts.append((s, e, "suball-", c, None, None))
        elif f[0] == "qadd":
            tagq[f[2]] = int(f[3])
            dropped = re.findall(r"drop=([^:]+):", o)
            if f[2] not in dropped and int(f[3]) > 0 and f[4] != "past":
                facts.append((s, e, "q+", c, f[2], None))
            for d in dropped:
                if d != f[2]:
                    facts.append((s, e, "q-", c, d, None))
        elif f[0] == "qread":
            m = re.search(r"ret=\[([^\]]*)\]", o)
            for d in re.findall(r"drop=([^:]+):", o):
                facts.append((s, e, "q-", c, d, None))
            for r in (m.group(1).split(",") if m and m.group(1) else []):
                t, rid, q = r.split(":")[:3]
                if int(q) == 0:
                    facts.append((s, e, "q-", c, t, None))
                else:
                    infl.setdefault(c, {})[int(rid)] = t
        elif f[0] == "qrm":
            if "q=-1" in o and int(f[2]) in infl.get(c, {}):
                facts.append((s, e, "q-", c, infl[c].pop(int(f[2])), None))
        elif f[0] == "qrep":
            if o.endswith("replaced") and int(f[2]) in infl.get(c, {}):
                t = infl[c][int(f[2])]
                facts.append((s, e, "qrel", c, t, f[2]))
        elif f[0] in ("qclean",) or (f[0] == "qinit" and f[2] == "1"):
            facts.append((s, e, "qall-", c, None, None)); infl[c] = {}
        elif f[0] == "uset":
            facts.append((s, e, "u+", c, f[2], None))
        elif f[0] == "urm":
            facts.append((s, e, "u-", c, f[2], None))
        elif f[0] == "uinit" and f[2] == "1":
            facts.append((s, e, "uall-", c, None, None))
    if W != J:
        return f"journal has {W} write commands, the per-operation journals add up to {J}"
    for k in range(W + 1):
        body = obs.get(k)
        if body is None:
            return f"no observation for prefix {k}"
        if body.startswith("fail") or body.startswith("err"):
            return f"prefix {k}: the stores do not come up on the dataset ({body})"
        parts = dict(p.split("=", 1) for p in split_top(body, ";"))
        sess_seen = {re.match(r"sess\(([^,]*),", x).group(1) for x in split_top(parts["sess"][1:-1])}
        subs_seen = {}
        for x in split_top(parts["subs"][1:-1]):
            cid, rest = x.split("/", 1)
            ps = rest.split(":")
            share, flt = ps[0], ":".join(ps[1:-5])
            sid, q, nl, rap, rh = ps[-5:]
            name = flt if share == "~" else "$share/" + share + "/" + flt
            subs_seen.setdefault(cid, {})[name] = (q, nl, rap, rh, sid)
        q_seen = {}
        for x in split_top(parts["q"][1:-1]):
            cid, l = x.split("=", 1)
            q_seen[cid] = [y for y in l[1:-1].split(",") if y and y != "|"]
        u_seen = {}
        for x in split_top(parts["ua"][1:-1]):
            cid, l = x.split("=", 1)
            u_seen[cid] = set(y for y in l[1:-1].split(",") if y)
        done = [ft for ft in facts if ft[1] <= k]
        prog = [ft for ft in facts if ft[0] < k < ft[1]]
        cids = {ft[3] for ft in facts}
        for c in cids:
            alive, free_sess = False, any(ft[2] in ("sess+", "sess-") and ft[3] == c for ft in prog)
            for ft in done:
                if ft[3] == c and ft[2] == "sess+": alive = True
                if ft[3] == c and ft[2] == "sess-": alive = False
            if free_sess:
                continue
            if alive and c not in sess_seen:
                return f"prefix {k}: session {c} was stored (Set returned) and is missing after the restart"
            if not alive:
                if c in sess_seen:
                    return f"prefix {k}: session {c} was removed / never stored and is present after the restart"
                continue
            # subscriptions: exactly
            want, free = {}, set()
            for ft in done:
                if ft[3] != c: continue
                if ft[2] == "sub+": want[ft[4]] = ft[5]
                elif ft[2] == "sub-": want.pop(ft[4], None)
                elif ft[2] == "suball-": want = {}
            for ft in prog:
                if ft[3] == c and ft[2] in ("sub+", "sub-"): free.add(ft[4])
            have = subs_seen.get(c, {})
            for name in set(want) | set(have):
                if name in free: continue
                if name in want and name not in have:
                    return f"prefix {k}: subscription {c}:{name} (Subscribe returned) is missing after the restart"
                if name in have and name not in want:
                    return f"prefix {k}: subscription {c}:{name} is present after the restart although it was unsubscribed / never made"
                if want[name] != have[name]:
                    return f"prefix {k}: subscription {c}:{name} came back with options {have[name]}, stored {want[name]}"
            # queue: every QoS>0 element added and not taken out
            owed, rel = [], {}
            for ft in done:
                if ft[3] != c: continue
                if ft[2] == "q+": owed.append(ft[4])
                elif ft[2] == "q-" and ft[4] in owed: owed.remove(ft[4])
                elif ft[2] == "qall-": owed, rel = [], {}
                elif ft[2] == "qrel": rel[ft[4]] = ft[5]
            freeq = {ft[4] for ft in prog if ft[3] == c and ft[2] in ("q-", "q+", "qrel")}
            if any(ft[3] == c and ft[2] == "qall-" for ft in prog):
                continue
            got = q_seen.get(c, [])
            got_tags = [g.split(":")[0] for g in got if not g.startswith("rel:")]
            got_rels = [g.split(":")[1] for g in got if g.startswith("rel:")]
            for t in owed:
                if t in freeq: continue
                if t in got_tags or (t in rel and rel[t] in got_rels):
                    continue
                return f"prefix {k}: element {t} of {c} (Add returned, not acknowledged, not reported dropped) is not delivered after the restart"
            # unack ids
            ids = set()
            for ft in done:
                if ft[3] != c: continue
                if ft[2] == "u+": ids.add(ft[4])
                elif ft[2] == "u-": ids.discard(ft[4])
                elif ft[2] == "uall-": ids = set()
            freeu = {ft[4] for ft in prog if ft[3] == c and ft[2] in ("u+", "u-")}
            if any(ft[3] == c and ft[2] == "uall-" for ft in prog):
                continue
            for i in ids - freeu:
                if i not in u_seen.get(c, set()):
                    return f"prefix {k}: packet id {i} of {c} awaiting PUBREL (Set returned) is not recognised after the restart"
    return None

def nontrivial_stores(ops, out):
    """the journal contains a multi-command operation (a pipeline, or a drop) and the history re-initialises or removes a session"""
    multi = any(o.count(";") >= 2 and o.startswith("J[") for o in out)
    return multi and any(op.startswith(("srem", "qinit")) and not op.endswith("1 4294967295") for op in ops)

# ------------------------------------------------------------------------------------------------ redis-crash (wire)

def gen_crash(rng):
    ops = [f"new pe=redis mode={rng.choice(['overlap', 'onlyonce'])} q0={rng.choice([0, 1])} qt=20000"]
    j = lambda s: ops.append("j " + s)
    subs_c = ["S"] + (["T"] if rng.random() < 0.4 else [])
    conn_of, life, spid = {}, {}, {}
    ppid = [0]
    ptag = [0]
    pub_persistent = rng.random() < 0.7
    def connect(cid, cs):
        life[cid] = life.get(cid, 0) + 1
        name = f"{cid.lower()}{life[cid]}"
        v = rng.choice([5, 5, 4])
        line = f"conn {name} {cid} v={v} cs={cs}"
        if v == 5:
            line += f" se={rng.choice([300, 300, 3600, 0]) if cid != 'P' else (300 if pub_persistent else 0)}"
        if rng.random() < 0.15:
            line += f" will=w/{cid},1,0,{rng.choice([0, 5]) if v == 5 else 0},W{life[cid]}"
        j(line)
        conn_of[cid] = name
    connect("P", 1)
    for c in subs_c:
        connect(c, 1)
    topics = ["t/1", "t/2", "t/3"]
    for _ in range(rng.randint(4, 16)):
        r = rng.random()
        c = rng.choice(subs_c)
        name = conn_of.get(c)
        if name is None:
            if r < 0.5:
                connect(c, 0 if rng.random() < 0.8 else 1)
                continue
            r = 0.3 + 0.4 * rng.random()          # publish while the subscriber is offline
        if r < 0.18 and name:
            spid[c] = spid.get(c, 0) + 1
            ts = rng.sample(topics, rng.randint(1, 2))
            ent = []
            for t in ts:
                t2 = ("$share/g/" + t) if rng.random() < 0.1 else t
                o = f"{t2}|{rng.choice([0, 1, 1, 2, 2])}"
                if rng.random() < 0.3: o += "|" + rng.choice(["nl", "rap", "rh1", "rh2"])
                ent.append(o)
            j(f"sub {name} {spid[c]} " + " ".join(ent) + (f" id={rng.choice([3, 9])}" if rng.random() < 0.3 else ""))
        elif r < 0.26 and name:
            spid[c] = spid.get(c, 0) + 1
            j(f"unsub {name} {spid[c]} {rng.choice(topics)}")
        elif r < 0.62:
            if conn_of.get("P") is None:
                connect("P", 0)
            ppid[0] += 1; ptag[0] += 1
            q = rng.choice([0, 1, 1, 2, 2])
            j(f"pub {conn_of['P']} {rng.choice(topics)} q={q} pid={ppid[0] if q else 0} tag=m{ptag[0]}")
            if q == 2 and rng.random() < 0.6:
                j(f"rel {conn_of['P']} {ppid[0]}")
        elif r < 0.8 and name:
            kind = rng.choice(["puback", "pubrec", "pubcomp", "pubrec"])
            j(f"ack {name} {kind} {rng.choice(['k=0', 'k=0', 'all'])}")
        elif r < 0.9 and name:
            j(rng.choice([f"close {name}", f"close {name}", f"disc {name}"]))
            conn_of[c] = None
        elif r < 0.95 and conn_of.get("P"):
            j(f"close {conn_of['P']}")
            conn_of["P"] = None
        elif name:
            connect(c, 1)          # clean start while online: take-over + removal + registration
    ops.append("crashscan")
    return ops

def topic_match(flt, topic):
    fl, tl = flt.split("/"), topic.split("/")
    for i, x in enumerate(fl):
        if x == "#": return True
        if i >= len(tl): return False
        if x != "+" and x != tl[i]: return False
    return len(fl) == len(tl)

BLOCK = re.compile(r"^([^{]+)\{exp=(\d+);subs=\[(.*)\];conn=([^;]*);rx=\[(.*)\];dup=\[(.*)\]\}$")

def parse_blocks(body):
    """-> ({cid: dict(exp, subs{name: opts}, conn, rx[list], dup{pid: 0/1})}, ghost list) or None for `fail`"""
    if body in ("-", ""):
        return {}, []
    ghost = []
    main = body
    if ";ghost=[" in body:
        main, g = body.split(";ghost=[", 1)
        ghost = [x for x in g.rstrip("]").split(",") if x]
    res = {}
    for b in split_top(main):
        m = BLOCK.match(b)
        if not m:
            return None, ghost
        cid, exp, subs, conn, rx, dup = m.groups()
        sd = {}
        for s in split_top(subs):
            p = s.rsplit(":", 5)
            sd[p[0]] = tuple(p[1:])
        res[cid] = dict(exp=int(exp), subs=sd, conn=conn, rx=split_top(rx), dup=dict(x.split("=") for x in dup.split(",") if x))
    return res, ghost

def crash_facts(ops, out):
    """replay the history on the scripted clients' side: what was acknowledged at the wire, and between which journal positions"""
    sess = wire.Sessions()
    J = 0
    F = dict(conn=[], sub=[], pub=[], copy=[], q2=[], scan=None, cfg={})
    conn_cid, conn_ver = {}, {}
    subs_now = {}          # cid -> {name: qos}
    alive = {}             # cid -> dict(exp)
    copies = []            # dict(cid, tag, qos, s, e, rx=None, rec=None, done=None)
    for op, line in zip(ops, out):
        f = op.split()
        if f[0] == "new":
            F["cfg"] = dict(x.split("=", 1) for x in f[1:] if "=" in x)
            continue
        if f[0] == "crashscan":
            F["scan"] = line
            break
        m = re.search(r" J=(\d+)$", line)
        if not m:
            return None
        s, e = J, int(m.group(1)); J = e
        body = line[:m.start()]
        inner = " ".join(f[1:])
        ff, pre, conns, acked = sess.step(inner, body)
        kv = dict(x.split("=", 1) for x in ff if "=" in x)
        if ff[0] == "conn":
            name, cid = ff[1], ff[2]
            h = conns.get(name, ([], []))[0]
            ca = next((x for x in h if x.startswith("connack(")), None)
            if not ca or ",code=0" not in ca:
                continue
            sp = ca.startswith("connack(sp=1")
            v = int(kv.get("v", 4))
            exp = int(kv.get("se", 0)) if v == 5 else (7200 if kv.get("cs", "1") == "0" else 0)
            conn_cid[name], conn_ver[name] = cid, v
            F["conn"].append(dict(s=s, e=e, cid=cid, new=not sp, exp=exp))
            if not sp:
                subs_now[cid] = {}
                for c in copies:
                    if c["cid"] == cid and c["done"] is None: c["done"] = s
                for q in F["q2"]:
                    if q["cid"] == cid and q["rel"] is None: q["rel"] = s
            alive[cid] = dict(exp=exp, online=name)
        elif ff[0] in ("close", "disc"):
            cid = conn_cid.get(ff[1])
            if cid is None or cid not in alive: continue
            exp = alive[cid]["exp"]
            if ff[0] == "disc" and "se" in kv: exp = int(kv["se"])
            alive[cid]["online"] = None
            if exp == 0:
                F["conn"].append(dict(s=s, e=e, cid=cid, new=None, exp=0))      # the session ends with the connection
                subs_now[cid] = {}
                for c in copies:
                    if c["cid"] == cid and c["done"] is None: c["done"] = s
        elif ff[0] == "sub":
            cid = conn_cid.get(ff[1])
            sa = next((x for x in conns.get(ff[1], ([], []))[0] if x.startswith("suback(")), None)
            if cid is None or not sa: continue
            codes = sa[sa.index(",") + 1:-1].split("+")
            tps = [x for x in ff[3:] if "=" not in x]
            for t, code in zip(tps, codes):
                p = t.split("|")
                if int(code) >= 128: continue
                if conn_ver.get(ff[1]) == 5:
                    opts = (str(int(code)), "1" if "nl" in p[2:] else "0", "1" if "rap" in p[2:] else "0",
                            next((x[2:] for x in p[2:] if x.startswith("rh")), "0"), kv.get("id", "0"))
                else:       # v3.1.1 has no subscription options
                    opts = (str(int(code)), "0", "0", "0", "0")
                F["sub"].append(dict(s=s, e=e, cid=cid, name=p[0], opts=opts))
                subs_now.setdefault(cid, {})[p[0]] = int(code)
        elif ff[0] == "unsub":
            cid = conn_cid.get(ff[1])
            if cid is None or not any(x.startswith("unsuback(") for x in conns.get(ff[1], ([], []))[0]): continue
            for t in [x for x in ff[3:] if "=" not in x]:
                F["sub"].append(dict(s=s, e=e, cid=cid, name=t, opts=None))
                subs_now.get(cid, {}).pop(t, None)
        elif ff[0] == "pub":
            src = conn_cid.get(ff[1])
            q = int(kv.get("q", 0))
            h = conns.get(ff[1], ([], []))[0]
            acked_pub = any(x.startswith(("puback(", "pubrec(")) for x in h)
            if q == 2 and acked_pub and src is not None:
                F["q2"].append(dict(cid=src, pid=kv.get("pid", "0"), s=s, e=e, rel=None))
            if q == 0 or not acked_pub:
                continue
            topic, tag = ff[2], kv.get("tag", "~")
            for cid, sd in subs_now.items():
                if cid not in alive: continue
                quals = [min(q, sq) for name, sq in sd.items()
                         if topic_match(name.split("/", 2)[2] if name.startswith("$share/") else name, topic)]
                if F["cfg"].get("mode") == "onlyonce" and quals:
                    quals = [max(quals)]
                for eq in quals:
                    if eq > 0:
                        copies.append(dict(cid=cid, tag=tag, qos=eq, s=s, e=e, rec=None, done=None, ids=[]))
        elif ff[0] == "rel":
            src = conn_cid.get(ff[1])
            for qq in F["q2"]:
                if qq["cid"] == src and qq["pid"] == ff[2] and qq["rel"] is None:
                    qq["rel"] = s
        elif ff[0] == "ack":
            cid = conn_cid.get(ff[1])
            for a in acked:
                cands = [c for c in copies if c["cid"] == cid and c["tag"] == a.tag and c["done"] is None and
                         (ff[2] != "pubcomp" or c["rec"] is not None) and (ff[2] != "pubrec" or c["rec"] is None)]
                if not cands: continue
                c0 = cands[0]
                c0["ids"].append(str(a.id))
                if ff[2] == "pubrec" and int(kv.get("code", 0)) < 128:
                    c0["rec"] = (s, e)
                else:
                    c0["done"] = s
    F["copy"] = copies
    F["J"] = J
    return F

def pred_crash(ops, out):
    """the property statement, evaluated on what the restarted brokers showed. An acknowledgement counts as sent before
    crash point k when the operation that produced it had issued all its storage commands within the first k; what the
    operation in progress at k touches may be in its old or its new state."""
    if len(out) != len(ops):
        return "driver crashed: " + (out[0][:200] if out else "")
    if any("HANG" in o for o in out[:-1]):
        return "the broker hung during the history"
    F = crash_facts(ops, out)
    if F is None or F["scan"] is None:
        return None
    W, obs = parse_restart(re.sub(r" JH=\S*", "", F["scan"]))
    step = 1
    for k in sorted(obs):
        body = obs[k]
        if body.startswith("fail"):
            return f"prefix {k}: the broker does not start on the store state after {k} commands"
        blocks, ghost = parse_blocks(body)
        if blocks is None:
            return f"prefix {k}: unparsable observation {body[:120]}"
        if ghost:
            return (f"prefix {k}: after the restart and a new session for the same client id, subscriptions {ghost} of the "
                    "session whose removal the crash interrupted reappear although they were never made in the new session")
        cids = {c["cid"] for c in F["conn"]}
        for cid in cids:
            st, exp, inprog, exp_new = None, 0, False, None        # st: None never / True alive / False ended
            for c in F["conn"]:
                if c["cid"] != cid: continue
                if c["e"] <= k:
                    if c["new"] is None: st = False
                    else: st, exp = True, c["exp"]
                elif c["s"] < k < c["e"] and (c["new"] is not False):
                    inprog = True           # a registration / removal is in progress: old or no session
                elif c["s"] < k < c["e"]:
                    exp_new = c["exp"]      # resume in progress: the stored expiry may already be the new one
            blk = blocks.get(cid)
            if inprog:
                if blk is None or not st:
                    continue
                # the old session is still visible: then it must be intact (checked below as if nothing had started)
            elif st is not True:
                continue
            if st is True and (exp == 0 or exp_new == 0):
                continue                     # a session that ends with its connection: no durability promised
            if blk is None:
                if inprog: continue
                return f"prefix {k}: session {cid} (CONNACK sent, expiry {exp}) is missing after the restart"
            if blk["conn"] != "1/0":
                return f"prefix {k}: session {cid} is not resumed by a Clean Start 0 reconnect after the restart (CONNACK {blk['conn']})"
            # subscriptions, exactly
            want, free = {}, set()
            base = max([c["e"] for c in F["conn"] if c["cid"] == cid and c["e"] <= k and c["new"]], default=0)
            for sb in F["sub"]:
                if sb["cid"] != cid or sb["s"] < base: continue
                if sb["e"] <= k:
                    if sb["opts"] is None: want.pop(sb["name"], None)
                    else: want[sb["name"]] = sb["opts"]
                elif sb["s"] < k:
                    free.add(sb["name"])
            have = blk["subs"]
            for name in set(want) | set(have):
                if name in free: continue
                if name in want and name not in have:
                    return f"prefix {k}: subscription {cid}:{name} (SUBACK sent) is missing after the restart"
                if name not in want:
                    return f"prefix {k}: subscription {cid}:{name} is present after the restart although its UNSUBACK was sent (or it was never made)"
                if want[name] != have[name]:
                    return f"prefix {k}: subscription {cid}:{name} came back as {have[name]}, acknowledged as {want[name]}"
            # redelivery
            rx_tags = [re.match(r"pub\(([^,]*),", x).group(1) for x in blk["rx"] if x.startswith("pub(")]
            rx_rels = [x[4:-1] for x in blk["rx"] if x.startswith("rel(")]
            need = {}
            for c in F["copy"]:
                if c["cid"] != cid or c["s"] < base: continue
                if c["e"] > k: continue                              # publisher not acknowledged before k
                if c["done"] is not None and c["done"] < k: continue  # subscriber's final ack (being) processed
                need.setdefault(c["tag"], []).append(c)
            for tag, cs in need.items():
                have_n = rx_tags.count(tag) + sum(1 for c in cs if c["rec"] and any(i in rx_rels for i in c["ids"]))
                if have_n < len(cs):
                    return (f"prefix {k}: message {tag} for {cid} (publisher acknowledged, subscriber has not acknowledged) is redelivered "
                            f"{have_n} time(s) after the restart, {len(cs)} owed")
            # duplicate detection
            for q in F["q2"]:
                if q["cid"] != cid or q["s"] < base or q["e"] > k: continue
                if q["rel"] is not None and q["rel"] < k: continue
                if blk["dup"].get(q["pid"]) != "1":
                    return f"prefix {k}: QoS 2 packet id {q['pid']} of {cid} (PUBREC sent, PUBREL not received) is not recognised as a duplicate after the restart"
    return None

def nontrivial_crash(ops, out):
    """the scan has at least 12 crash points and some restarted broker redelivers a message or a PUBREL to a resumed session"""
    return bool(out) and " k12{" in out[-1] and ("rx=[p" in out[-1] or "rx=[r" in out[-1])

def canon_crash(ops, out):
    """compared: the crash scan (every prefix) and, per op, the verdict of the journal-conformance check (`seg=ok` on the model
    side means: the commands the history model `HOp.cmds` predicts for this op equal the broker's journal segment)"""
    res = []
    for op, o in zip(ops, out):
        if op.startswith("crashscan"):
            res.append(re.sub(r" JH=\S*", "", o))
        elif op.startswith("j "):
            res.append("seg=ok" if not o.startswith("seg=") or o == "seg=skip" else o)
        else:
            res.append("-")
    return res

def crash_events(ops, impl_out, segs):
    """per op: the history steps (Model/RedisHistory.HOp) it amounts to, from the wire op and what the scripted clients saw"""
    sess = wire.Sessions()
    conn_cid, conn_ver, online, expiry = {}, {}, {}, {}
    evs = []
    for op, line, seg in zip(ops, impl_out, segs):
        f = op.split()
        if f[0] != "j":
            evs.append(None); continue
        body = re.sub(r" J=\d+$", "", line)
        ff, pre, conns, acked = sess.step(" ".join(f[1:]), body)
        kv = dict(x.split("=", 1) for x in ff if "=" in x)
        ev = []
        if ff[0] == "conn":
            name, cid = ff[1], ff[2]
            h = conns.get(name, ([], []))[0]
            ca = next((x for x in h if x.startswith("connack(")), None)
            if ca and ",code=0" in ca:
                if online.get(cid):
                    ev.append("skip")             # take-over of an online client: two connections of one id in one op
                v = int(kv.get("v", 4))
                conn_cid[name], conn_ver[name] = cid, v
                expiry[cid] = int(kv.get("se", 0)) if v == 5 else (7200 if kv.get("cs", "1") == "0" else 0)
                online[cid] = name
                ev.append(f"con|{cid}|{kv.get('cs', '1')}")
        elif ff[0] == "sub":
            cid = conn_cid.get(ff[1])
            sa = next((x for x in conns.get(ff[1], ([], []))[0] if x.startswith("suback(")), None)
            if cid and sa:
                for code in sa[sa.index(",") + 1:-1].split("+"):
                    if int(code) < 128:
                        ev.append(f"sub|{cid}")
        elif ff[0] == "unsub":
            cid = conn_cid.get(ff[1])
            if cid and any(x.startswith("unsuback(") for x in conns.get(ff[1], ([], []))[0]):
                for t in [x for x in ff[3:] if "=" not in x]:
                    ev.append(f"uns|{cid}|{t}")
        elif ff[0] == "pub":
            src = conn_cid.get(ff[1])
            if src and kv.get("q") == "2" and any(x.startswith("pubrec(") for x in conns.get(ff[1], ([], []))[0]):
                ev.append(f"rq2|{src}|{kv.get('pid', '0')}")
        elif ff[0] == "rel":
            src = conn_cid.get(ff[1])
            if src:
                ev.append(f"rel|{src}|{ff[2]}")
        elif ff[0] == "ack":
            cid = conn_cid.get(ff[1])
            for a in acked:
                if ff[2] == "pubrec" and int(kv.get("code", 0)) < 128:
                    ev.append(f"rec|{cid}|{a.id}")
                else:
                    ev.append(f"ack|{cid}|{a.id}")
        elif ff[0] in ("close", "disc"):
            cid = conn_cid.get(ff[1])
            if cid and online.get(cid) == ff[1]:
                online[cid] = None
                if ff[0] == "disc" and "se" in kv and conn_ver.get(ff[1]) == 5 and int(kv["se"]) != 0 and expiry.get(cid, 0) != 0:
                    expiry[cid] = int(kv["se"])
                    ev.append(f"exp|{cid}|{kv['se']}")
                if expiry.get(cid, 0) == 0:
                    ev.append(f"trm|{cid}")
        # routed messages (publishes, wills): every RPUSH of the segment; deliveries: what the clients were sent.
        # The poll loop of an online client may run between two RPUSHes of one op (two copies of a message): the order of
        # `enq` and `dlv` steps per client is the order of the journal (RPUSH = enq, a run of LSET/LREM behind it = dlv).
        dlv = {}
        for name, (h, pl) in conns.items():
            cid = conn_cid.get(name)
            if cid is None:
                continue
            fresh = [wire.pub_fields(x) for x in pl]
            fresh = [x for x in fresh if x and x["d"] == 0]
            if fresh:
                dlv[cid] = [str(x["id"]) for x in fresh if x["q"] > 0]
        qcmds = {}
        for c in seg:
            parts = c.split(",")
            if len(parts) > 1 and parts[1].startswith("queue:") and parts[0] in ("rpush", "lset", "lrem"):
                qcmds.setdefault(parts[1][6:], []).append(parts[0])
        if ff[0] == "conn":
            for c, cmds in qcmds.items():
                for x in cmds:
                    if x == "rpush": ev.append(f"enq|{c}")
            for c, ids in dlv.items():
                ev.append(f"dlv|{c}|{'+'.join(ids) if ids else '-'}")
        elif ff[0] != "ack":
            for c, cmds in qcmds.items():
                ids = list(dlv.get(c, []))
                i = 0
                while i < len(cmds):
                    if cmds[i] == "rpush":
                        ev.append(f"enq|{c}"); i += 1
                    else:
                        j2 = i
                        while j2 < len(cmds) and cmds[j2] != "rpush": j2 += 1
                        n = sum(1 for x in cmds[i:j2] if x == "lset")
                        ev.append(f"dlv|{c}|{'+'.join(ids[:n]) if n else '-'}")
                        ids = ids[n:]
                        i = j2
        evs.append("skip" if "skip" in ev else ";".join(ev))
    return evs

def hint_crash(ops, impl_out):
    """the Lean side runs `recover` on every prefix of exactly the command sequence the broker issued, and checks that the
    history model predicts that sequence op by op"""
    scan = next((o for op, o in zip(ops, impl_out) if op.startswith("crashscan")), "")
    m = re.search(r" JH=(\S*)", scan)
    journal = m.group(1).split(";") if m and m.group(1) else []
    segs, J = [], 0
    for op, o in zip(ops, impl_out):
        mm = re.search(r" J=(\d+)$", o)
        if op.startswith("j ") and mm:
            segs.append(journal[J:int(mm.group(1))]); J = int(mm.group(1))
        else:
            segs.append([])
    try:
        evs = crash_events(ops, impl_out, segs)
    except Exception:
        evs = [None] * len(ops)
    res = []
    cmap = {}
    q2 = []
    for op, o, seg, ev in zip(ops, impl_out, segs, evs):
        f = op.split()
        if f[0] == "j" and f[1] == "conn":
            cmap[f[2]] = f[3]
        if f[0] == "j" and f[1] == "pub" and "q=2" in f:
            pid = next((x[4:] for x in f if x.startswith("pid=")), "0")
            if f[2] in cmap:
                q2.append(f"{cmap[f[2]]}|{pid}")
        if f[0] == "crashscan":
            op = f"crashscan JH={m.group(1) if m else ''} Q2={';'.join(q2)}"
        elif f[0] == "j" and ev is not None and journal:
            op = f"{op} JS={';'.join(seg)} EV={ev}"
        res.append(op)
    return res

class CrashStream(core.Stream):
    def impl(self, cases):
        # the broker, its scripted clients and the fake redis share one process: a second P keeps the redis side
        # responsive while the harness polls for quiescence
        import os
        old = os.environ.get("GOMAXPROCS")
        os.environ["GOMAXPROCS"] = "2"
        try:
            return core.run_parallel([core.drive_exe("broker")], cases, timeout=self.timeout)
        finally:
            if old is None: os.environ.pop("GOMAXPROCS", None)
            else: os.environ["GOMAXPROCS"] = old

def streams(tier):
    quick = tier == "quick"
    return [
        (core.Stream("redis-cmds", "redis", gen_cmds, None, nontrivial_cmds, drive_args=["cmds"], oracle_args=["cmds"]), 2000 if quick else 60000),
        (core.Stream("redis-codec", "redis", gen_codec, pred_codec, nontrivial_codec, drive_args=["stores"], oracle_args=["stores"]), 1200 if quick else 40000),
        (core.Stream("redis-stores", "redis", gen_stores, pred_stores, nontrivial_stores, drive_args=["stores"], oracle_args=["stores"]), 400 if quick else 8000),
        (CrashStream("redis-crash", "redis", gen_crash, pred_crash, nontrivial_crash, canon=canon_crash, hint=hint_crash,
                     oracle_args=["wire"], timeout=600), 30 if quick else 1000),
        # the redis session queue as the broker drives it (shared with C10): same model, and every redis command of a queue
        # method must run while the queue's lock is held — the crash-consistency theorems treat a method's commands as one
        # sequence that no other method of the same queue interleaves with (seed C09-4)
        (_c10.RedisStream("queue-redis", "queue", _c10.gen_redis, _c10.predicate, _c10.nontrivial, keep_prefix=2), 3000 if quick else 60000),
    ]

def rec_f30(info):
    """F30: the persisted format writes field lengths as uint16; fields of 64 KiB or more do not round-trip (format change: recorded)"""
    return "64 KiB or more does not survive" in (info.get("why") or "")

RECOGNISERS = {"c09_f30_len16": rec_f30}

def run(r):
    return core.standard_run(r, __import__(__name__, fromlist=["x"]))

RULE = ("redis-crash: wire histories (persistent and non-persistent clients, subscribe with all option values, unsubscribe, QoS 0/1/2 "
        "publishes to online and offline subscribers, partial PUBACK/PUBREC/PUBCOMP/PUBREL flows, closes, clean-start reconnects) on a real "
        "broker with persistence.type=redis over respfake; for every prefix of the write journal a fresh broker is started on the "
        "dataset and observed (compared with Lean `recover` on the same journal prefix), and op by op the journal segment is compared "
        "with the commands the history model (`HOp.cmds`, the sequence `crash_consistent` quantifies over) predicts; redis-stores: the same at the level of the four store APIs with command-for-command comparison; "
        "redis-cmds / redis-codec: the command semantics and the encodings. non-trivial = history with at least 12 crash points in which some "
        "restarted broker redelivers a message or a PUBREL to a resumed session (crash), journal with a pipeline or drop plus a "
        "re-initialisation/removal (stores), a failing command or vanishing key (cmds), a rejected decode or a value with optional properties (codec)")
ASSUME = ["respfake (harness/internal/respfake) stands in for redis: documented semantics of the 14 commands used, single-threaded execution; "
          "it also passes /repo's own redis test-suite (persistence.TestRedis)",
          "crash points lie between redis commands (a Send…Flush pipeline counts as its commands in order); torn writes inside one command, "
          "pool exhaustion and network errors are not covered",
          "an acknowledgement is taken as sent before crash point k only if the operation that produced it had issued all its commands "
          "within the first k (the ack is written after them)",
          "journal conformance is skipped for the rest of a history once a client id is taken over by a second connection while "
          "online (two connections of one id inside one op); payloads the wire does not determine (stored session record, encoded "
          "subscription, queued element) are taken from the journal command when the history step is reconstructed",
          "expiry does not fire during a history (message expiry 2 h, in-flight expiry 30 s, histories take milliseconds)"]
