"""C10 — session message queue (mem backend; redis backend stream added in c10 when respfake is present)."""
import re
from .. import core

PROP = "C10"
MODULE = "GmqttVerif.Properties.C10"
THEOREMS = ["GmqttVerif.Queue.len_le_max", "GmqttVerif.Queue.conservation", "GmqttVerif.Queue.exactly_one_place",
            "GmqttVerif.Queue.read_fifo", "GmqttVerif.Queue.read_ids_in_order", "GmqttVerif.Queue.read_never_expired_or_oversize",
            "GmqttVerif.Queue.replay_after_init", "GmqttVerif.Queue.drop_ladder", "GmqttVerif.Queue.counters_exact"] + \
           ["GmqttVerif.C10Redis." + t for t in
            # redis backend refines the memory-queue model (Properties/C10Redis.lean): every operation, loops included, whole histories
            ["redis_refines_mem_init", "redis_refines_mem_add", "redis_refines_mem_remove", "redis_refines_mem_replace",
             "redis_refines_mem_close", "redis_refines_mem_readInflight", "redis_refines_mem_read", "redis_refines_mem_add_full",
             "redis_refines_mem", "redis_refines_mem_run", "redis_refines_mem_from_new", "statement_without_fresh_false", "sim_new"]]
EXTRA_MODULES = ["GmqttVerif.Properties.C10Redis"]
BIG = 4294967295

def gen(rng, age=True):
    """age=True (mem backend only): some messages get expiry `soon` (alive when added and read) and `age` ops let that
    deadline pass — the only way an element can expire AFTER it was handed out with in-flight expiry off, or while queued"""
    mx = rng.choice([1, 2, 2, 3, 3, 5])
    ie = rng.choice(["0", "0", "tiny", "huge"])
    limit = rng.choice([BIG, BIG, 25])
    ops = [f"new {mx} {ie}", f"init {rng.choice([0,1])} {limit}"]
    if rng.random() < 0.9:
        ops.append("readinflight 10")
    tag, pid = 0, 0
    recent = []
    n = rng.choice([5, 15, 40, 120])
    qos_w = rng.choice([[0, 1, 2], [1, 1, 2], [0, 0, 1], [1, 2, 2, 2]])
    add_w = rng.choice([0.35, 0.5, 0.7])
    for _ in range(rng.randint(1, n)):
        r = rng.random()
        if r < add_w:
            tag += 1
            exp = rng.choice(["none", "none", "none", "future", "past"] + (["soon", "soon"] if age else []))
            size = rng.choice([14, 20, 25, 26, 30]) if limit != BIG else 20
            ops.append(f"add {tag} {rng.choice(qos_w)} {exp} {size}")
        elif r < add_w + 0.2:
            k = rng.choice([1, 1, 2, 3, 5])
            ids = list(range(pid + 1, pid + 1 + k)); pid += k
            recent = (recent + ids)[-8:]
            ops.append("read " + ",".join(map(str, ids)))
        elif r < add_w + 0.32:
            ops.append(f"remove {rng.choice(recent) if recent and rng.random() < 0.9 else rng.randint(1, 9)}")
        elif r < add_w + 0.38:
            ops.append(f"replace {rng.choice(recent) if recent and rng.random() < 0.9 else rng.randint(1, 9)}")
        elif r < add_w + 0.44:
            ops.append(f"init {1 if rng.random() < 0.25 else 0} {limit}")
            if rng.random() < 0.8:
                ops.append(f"readinflight {rng.choice([1, 2, 10, 10])}")
                if rng.random() < 0.7:
                    ops.append("readinflight 10")
        elif r < add_w + 0.48:
            ops.append(f"readinflight {rng.choice([0, 1, 2, 10])}")
        elif r < add_w + 0.49:
            ops.append("close")
        elif age and r < add_w + 0.55:
            ops.append("age")
        else:
            tag += 1
            ops.append(f"add {tag} {rng.choice(qos_w)} none 20")
    # final drain: everything still inside must come out (replayed, returned or reported dropped)
    ops += [f"init 0 {BIG}", "readinflight 1000", "readinflight 1000",
            "read " + ",".join(str(i) for i in range(pid + 1, pid + 41))]
    return ops

ELEM = re.compile(r"^(\d+):(\d+):(\d+):(none|past|future)$")

def _age(info):
    for v in info.values():
        if v[1] == "soon":
            v[1] = "past"

def parse_ret(line):
    m = re.search(r"ret=\[([^\]]*)\]", line)
    if not m:
        return None
    return [x for x in m.group(1).split(",") if x]

def predicate(ops, out):
    """the property, evaluated on what the implementation reported for this history. returns None or a reason."""
    if len(out) != len(ops) or (out and out[0].startswith("CRASH")):
        return "implementation crashed or hung: " + (out[0] if out else "")
    mx = int(ops[0].split()[1]); ie = ops[0].split()[2]
    info = {}                 # tag -> (qos, exp, size)
    unread = []               # tags queued, unread, in order
    infl = []                 # [tag or None(for unknown), id] handed out, unacked, in order
    qsum = isum = 0
    limit = 0
    need_replay = None        # in-flight entries that must be replayed before Read
    drained = False
    for op, o in zip(ops, out):
        f = op.split()
        if o == "panic" and not (f[0] == "read" and not drained):  # Read before the replay finished may refuse
            return f"panic in `{op}`"
        if o in ("err", "bad-op", "badsize", "blocked?"):
            return f"unexpected result `{o}` for `{op}`"
        if "UNLOCKEDCMD" in o.split():
            return (f"`{op}`: a redis command of the queue was issued while the queue's lock was NOT held — the method is then not one "
                    "atomic step: another method's positional commands (LRANGE cur / LSET cur) can run in between")
        if "UNLOCKED" in o.split():
            return (f"`{op}`: a Notifier callback ran while the queue's lock was NOT held — the counters the queue reports are then not "
                    "updated atomically with its contents (another goroutine's report can overtake this one)")
        evs = o.split()
        for e in evs:
            if e.startswith("q="): qsum += int(e[2:])
            if e.startswith("i="): isum += int(e[2:])
        drops = [e[5:] for e in evs if e.startswith("drop=")]
        if f[0] == "new":
            unread, infl, qsum, isum, drained, need_replay = [], [], 0, 0, False, None
        elif f[0] == "init":
            limit = int(f[2]); drained = False
            if f[1] == "1":
                unread, infl, qsum, isum = [], [], 0, 0
            need_replay = list(infl)
        elif f[0] == "add":
            tag = int(f[1]); info[tag] = [int(f[2]), f[3], int(f[4])]
            was_full = len(unread) + len(infl) >= mx
            unread.append(tag)
            if drops and not was_full:
                return f"`{op}` dropped {drops} although the queue was not full"
            if was_full and len(drops) != 1:
                return f"`{op}` on a full queue reported {len(drops)} drops"
            for d in drops:
                p = d.split(":")
                if p[0] == "rel":
                    hit = [x for x in infl if x[1] == int(p[1])]
                    if not hit: return f"`{op}` dropped unknown pubrel {d}"
                    infl.remove(hit[0]); continue
                t, reason = int(p[0]), p[-1]
                if t in unread:
                    q, ex, _ = info[t]
                    if reason == "expired" and ex != "past":
                        return f"`{op}` dropped tag {t} as expired but it is not"
                    if reason == "expiredinflight":
                        return f"`{op}` dropped unread tag {t} as expired in-flight"
                    # ladder
                    others = [u for u in unread if u != tag]
                    pending = need_replay or []
                    exp_infl = [x for x in infl if x not in pending and x[0] is not None and (ie == "tiny" or info[x[0]][1] == "past")]
                    if exp_infl:
                        return f"`{op}` dropped {t} although expired in-flight entry {exp_infl[0]} exists"
                    exp_q = [u for u in others if info[u][1] == "past"]
                    q0 = [u for u in others if info[u][0] == 0]
                    want = exp_q[0] if exp_q else q0[0] if q0 else (tag if info[tag][0] == 0 or not others else others[0])
                    if t != want:
                        return f"`{op}` dropped tag {t}; the documented priority sacrifices tag {want}"
                    unread.remove(t)
                else:
                    hit = [x for x in infl if x[0] == t]
                    if not hit:
                        return f"`{op}` reported dropping tag {t} which is not in the queue"
                    if reason != "expiredinflight":
                        return f"`{op}` dropped in-flight tag {t} for reason {reason}"
                    if not (ie == "tiny" or info[t][1] == "past"):
                        return f"`{op}` dropped in-flight tag {t} as expired but it is not"
                    infl.remove(hit[0])
        elif f[0] in ("read", "readinflight"):
            if o in ("panic", "blocked", "closed"):
                if o == "blocked" and drained and unread:
                    return f"`{op}` blocked although {len(unread)} unread messages are queued"
                continue
            ret = parse_ret(o)
            if ret is None:
                return f"unparsable result `{o}` for `{op}`"
            if f[0] == "readinflight":
                if need_replay is None: need_replay = list(infl)
                for r in ret:
                    p = r.split(":")
                    rid = int(p[1])
                    if not need_replay:
                        return f"`{op}` replayed {r} which is not an unacknowledged in-flight entry"
                    exp_tag, exp_id = need_replay.pop(0)
                    if rid != exp_id or (p[0] != "rel" and exp_tag is not None and int(p[0]) != exp_tag):
                        return f"`{op}` replayed {r}, expected in-flight entry tag={exp_tag} id={exp_id} next"
                if not ret and int(f[1]) > 0:   # contract: an empty result means every in-flight entry has been read
                    if need_replay:
                        return f"`{op}` stopped replaying before in-flight entries {need_replay}"
                    drained = True
                continue
            # read
            pids = [int(x) for x in f[1].split(",")] if f[1] != "-" else []
            used = 0
            for d in drops:
                p = d.split(":"); t = int(p[0])
                if t not in unread: return f"`{op}` dropped tag {t} which is not queued"
                if p[-1] == "expired" and info[t][1] != "past": return f"`{op}` dropped unexpired tag {t} as expired"
                if p[-1] == "oversize" and info[t][2] <= limit: return f"`{op}` dropped tag {t} as oversize (size {info[t][2]} <= {limit})"
                unread.remove(t)
            last = -1
            for r in ret:
                m = ELEM.match(r)
                if not m: return f"`{op}` returned {r}"
                t, rid, q = int(m.group(1)), int(m.group(2)), int(m.group(3))
                if t not in unread: return f"`{op}` returned tag {t} which is not an unread queued message (duplicate or ghost)"
                if unread[0] != t: return f"`{op}` returned tag {t} before older queued tag {unread[0]} (FIFO)"
                if info[t][1] == "past": return f"`{op}` returned expired tag {t}"
                if info[t][2] > limit: return f"`{op}` returned oversize tag {t}"
                unread.remove(t)
                if q == 0:
                    if rid != 0: return f"`{op}` assigned packet id {rid} to QoS 0 tag {t}"
                else:
                    if used >= len(pids) or rid != pids[used]:
                        return f"`{op}` gave tag {t} id {rid}, expected the next supplied id"
                    used += 1
                    infl.append([t, rid])
                    if ie != "0":
                        info[t][1] = "infl"     # from now on the in-flight expiry governs, not the message's own deadline
        elif f[0] == "age":
            _age(info)
        elif f[0] == "remove":
            hit = [x for x in infl if x[1] == int(f[1])]
            if "q=-1" in evs:
                if not hit: return f"`{op}` removed something although id {f[1]} is not in flight"
                infl.remove(hit[0])
        elif f[0] == "replace":
            if o == "replaced":       # the slot now holds a PUBREL, which has no expiry of its own
                for x in infl:
                    if x[1] == int(f[1]):
                        x[0] = None
                        break
        if len(unread) + len(infl) > mx:
            return f"queue holds {len(unread)+len(infl)} > max {mx} after `{op}`"
        if qsum != len(unread) + len(infl):
            return f"queue counter {qsum} != contents {len(unread)+len(infl)} after `{op}`"
        if isum != len(infl):
            return f"in-flight counter {isum} != in-flight entries {len(infl)} after `{op}`"
    if ops[-3:-1] == ["readinflight 1000", "readinflight 1000"]:
        if need_replay:
            return f"in-flight entries not replayed after re-initialisation: {need_replay}"
        if unread and out[-1] not in ("closed", "blocked"):
            return f"messages silently gone or stuck after the final drain: unread={unread}"
    return None

def nontrivial(ops, out):
    """history that fills the queue (some drop for `full`) and later reads or re-initialises"""
    seen_full = False
    for op, o in zip(ops[:-4], out):
        if ":full" in o or ":expiredinflight" in o:
            seen_full = True
        elif seen_full and (op.startswith("read") or op.startswith("init")):
            return True
    return False

def rec_f32(info):
    return False

COMPS = ["queue"]
GO_EXTRA = ["queue_redis"]      # cmd/drive_queue_redis: same line protocol, persistence/queue/redis over internal/respfake

def gen_redis(rng):
    """same histories as the mem stream, plus the occasional Read with an empty id list (`lrange cur cur-1`)"""
    ops = gen(rng, age=False)
    if rng.random() < 0.1:
        ops.insert(rng.randint(2, len(ops) - 4), "read -")
    if ops[0].endswith(" huge") and rng.random() < 0.06:
        # a real second passes in front of a ReadInflight: the entries it re-stamps (now + inflight expiry, stored in whole seconds)
        # get other bytes than the copies handed out before, and must still be found by Remove / Replace afterwards (seed C10-6)
        idx = [i for i, o in enumerate(ops) if o.startswith("readinflight ") and i > 2]
        if idx:
            ops.insert(rng.choice(idx), "wait")
    return ops

class RedisStream(core.Stream):
    """implementation side = drive_queue_redis; model side = the SAME oracle_queue (Model/Queue.lean)"""
    def impl(self, cases):
        return core.run_parallel([core.drive_exe("queue_redis")], cases, timeout=self.timeout)

def streams(tier):
    n = 20000 if tier == "quick" else 400000
    nr = 8000 if tier == "quick" else 150000
    return [(core.Stream("queue-mem", "queue", gen, predicate, nontrivial, keep_prefix=2), n),
            (RedisStream("queue-redis", "queue", gen_redis, predicate, nontrivial, keep_prefix=2), nr)]

def run(r):
    return core.standard_run(r, __import__(__name__, fromlist=["x"]))

RULE = ("random histories of new/init/add/read/readinflight/remove/replace/close on persistence/queue/mem through its public API "
        "(capacity 1-5, QoS mix, expiry none/past/future/soon (+ `age` ops that let `soon` deadlines pass; mem backend), sizes around the read limit, in-flight expiry off/1ns/1h, 1-120 ops + final drain), "
        "each executed by the real code and by the Lean model and compared line by line; the Python predicate re-checks the property on the "
        "implementation's outputs. non-trivial = distinct history that fills the queue (a drop for `full`/`expiredinflight`) and later reads or re-initialises")
ASSUME = ["sync.Mutex/Cond make each queue method atomic (one model step per call); that the Notifier callbacks belong to that step is "
          "checked on every callback of every case (verif hook VerifLocked: the queue's lock is held while the callback runs)",
          "time is symbolic: expiry past/future = now∓2h; in-flight expiry 1ns or 1h; `soon` = a deadline in the future that an `age` op "
          "moves into the past by back-dating the element the queue holds (mem backend keeps the caller's *queue.Elem)",
          "redis backend: stream queue-redis drives persistence/queue/redis over harness/internal/respfake (an in-process RESP2 server "
          "with redis' documented semantics for the 14 commands used), not a real redis; it is compared with the same Lean model, so "
          "agreement on a history = redis_refines_mem on that history"]
