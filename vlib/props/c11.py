"""C11 — shared subscriptions. Store-level part: membership of (group, filter) = clients subscribed and not left;
leaving (Unsubscribe / UnsubscribeAll) is local to the leaver. The wire-level part (exactly one member socket receives
each message, QoS = min, no retained on shared subscribe) is added to this module by the broker-level harness.

Reuses the reference map, generators and predicate of c02.py (component `substore`)."""
from .. import core
from . import c02

PROP = "C11"
MODULE = "GmqttVerif.Properties.C11"
NS = "GmqttVerif.SubStore."
THEOREMS = [NS + n for n in ["shared_members_exact", "shared_match_exact", "leave_is_local_unsubscribe",
                             "leave_is_local_unsubscribeAll", "leave_is_local"]] + \
           ["GmqttVerif.Deliver." + n for n in ["shared_one_per_group", "shared_none_without_member",
                                                "shared_independent_of_nonshared", "leave_stops_selection",
                                                "goodPick_pickBy"]] + \
           ["GmqttVerif.Broker.leave_terminate", "GmqttVerif.Broker.leave_unsubscribe"]
EXTRA_MODULES = ['GmqttVerif.Properties.C11Deliver']
COMPS = ["substore", "broker"]

def gen_churn(rng):
    """membership churn on few filters: joins, leaves by UNSUBSCRIBE and by UnsubscribeAll (session end / clean take-over /
    expiry all reduce to it), one client in several groups on one filter, groups sharing a filter with non-shared entries,
    wildcard and '$' filters; after every leave the whole membership is read back three ways."""
    filters = rng.sample(["t", "t/x", "t/+", "t/#", "+/x", "#", "$s/a", "$s/+", "a//b", "+"], rng.choice([1, 2, 3]))
    topics = {"t": ["t"], "t/x": ["t/x"], "t/+": ["t/x", "t/"], "t/#": ["t", "t/x/y"], "+/x": ["t/x", "$s/x"], "#": ["t", "$s/a"],
              "$s/a": ["$s/a"], "$s/+": ["$s/a", "$s"], "a//b": ["a//b"], "+": ["t", "$s"]}
    clients = c02.CLIENTS[:rng.choice([2, 3, 4])]
    ops = ["new"]
    live = set()
    def readback(f):
        res = []
        for g in c02.GROUPS:
            res.append(f"get 2 $share/{g}/{f}")
        res.append(f"match {rng.choice([2, 7])} {rng.choice(topics[f])}")
        for c in clients:
            res.append(f"client {c} {rng.choice([2, 7])}")
        res.append("stats")
        return res
    for _ in range(rng.randint(2, 30)):
        r = rng.random()
        c, f, g = rng.choice(clients), rng.choice(filters), rng.choice(c02.GROUPS)
        if r < 0.45:
            ops.append(c02.sub_line(rng, c, g, f)); live.add((c, g, f))
            if rng.random() < 0.25:      # same client, other group, same filter
                g2 = [x for x in c02.GROUPS if x != g][0]
                ops.append(c02.sub_line(rng, c, g2, f)); live.add((c, g2, f))
        elif r < 0.55:
            ops.append(c02.sub_line(rng, c, "", f))
        elif r < 0.75:
            if live and rng.random() < 0.85:
                c, g, f = rng.choice(sorted(live))
            ops.append(f"unsub {c} $share/{g}/{f}"); live.discard((c, g, f))
            ops += readback(f)
        elif r < 0.9:
            if live and rng.random() < 0.8:
                c = rng.choice(sorted(live))[0]
            ops.append(f"unsuball {c}")
            live = {k for k in live if k[0] != c}
            ops += readback(f)
        else:
            ops.append(f"unsub {c} {f}")
            ops += readback(f)[-3:]
    ops += ["all 2", "all 7", "stats"] + [f"cstats {c}" for c in clients]
    return ops

def streams(tier):
    q = tier == "quick"
    return [
        (core.Stream("shared-churn", "substore", gen_churn, c02.predicate, c02.shared_leave_then_query, keep_prefix=1),
         8000 if q else 300000),
        (core.Stream("substore-shared", "substore", c02.gen_shared, c02.predicate, c02.shared_leave_then_query, keep_prefix=1),
         6000 if q else 200000),
        _wire(tier),
    ]

def _wire(tier):
    from . import c11wire
    return c11wire.stream(tier)

RECOGNISERS = c02.RECOGNISERS

def run(r):
    return core.standard_run(r, __import__(__name__, fromlist=["x"]))

RULE = ("store level: random membership churn of 2-4 clients in 2 groups over 1-3 filters (plain, wildcard, '$', empty level), "
        "leaving by Unsubscribe and UnsubscribeAll, one client in both groups on one filter, non-shared entries on the same filter; "
        "after every leave the members of every group, the matching set, every client's listing and the counters are read back and "
        "compared with a plain dict (Python) and with the Lean model. non-trivial = distinct history in which a member leaves while "
        "the filter keeps another shared entry, followed by a shared query")
ASSUME = c02.ASSUME + ["wire-level clauses of C11 (one member socket per message, QoS min, no retained) are not part of this stream"]
