"""C11 (wire part) — each message goes to exactly one live member per share group; leaving is local."""
import collections
from .. import core, wire
from .c01 import mqtt_match

FILTERS = ["t/a", "t/+", "t/#", "#", "+/a", "$x/#", "+/+"]
TOPICS = ["t/a", "t/b", "t", "$x/a", "u/a"]

def gen(rng):
    faulty = rng.random() < 0.3
    # pe=faulty: the session store reports a failure from Remove (after removing) while `api failremove 1` is in force: a member
    # that leaves by session end must leave its groups whatever the session store answered (seed C11-4)
    ops = [f"new mode={rng.choice(['overlap', 'onlyonce'])}" + (" pe=faulty" if faulty else ""), "conn p cp v=5 cs=1"]
    if faulty:
        ops.append("api failremove 1")
    if rng.random() < 0.6:
        ops.append(f"pub p {rng.choice(TOPICS)} q=1 pid=1 r=1 tag=r0")       # a retained message: never replayed on a shared subscribe
    names = ["a", "b", "c"][:rng.choice([2, 3, 3])]
    gen_ = {n: 0 for n in names}
    conn = {}
    pid = 1
    def connect(n):
        gen_[n] += 1
        conn[n] = f"{n}{gen_[n]}"
        ops.append(f"conn {conn[n]} c{n} v=5 cs=1")
    for n in names:
        connect(n)
    sid = 10
    def join(n):
        nonlocal pid, sid
        pid += 1; sid += 1
        g = rng.choice(["g1", "g1", "g2"])
        f = rng.choice(FILTERS)
        opt = rng.choice(["", "", "|rh1", "|rh0", "|rh2", "|rap"])      # Retain Handling never makes a shared subscribe replay
        ops.append(f"sub {conn[n]} {pid} $share/{g}/{f}|{rng.choice([0, 1, 2])}{opt} id={sid}")
    for n in names:
        for _ in range(rng.choice([1, 1, 2])):
            join(n)
        if rng.random() < 0.3:
            pid += 1; sid += 1
            ops.append(f"sub {conn[n]} {pid} {rng.choice(FILTERS)}|{rng.choice([0, 1])} id={sid}")
    tag = 0
    for _ in range(rng.randint(3, 12)):
        r = rng.random()
        if r < 0.6:
            tag += 1; pid += 1
            q = rng.choice([0, 1, 2])
            ops.append(f"pub p {rng.choice(TOPICS)} q={q} pid={pid if q else 0} tag=m{tag}")
            if q == 2: ops.append(f"rel p {pid}")
            for n in names:
                if n in conn:
                    ops += [f"ack {conn[n]} puback all", f"ack {conn[n]} pubrec all", f"ack {conn[n]} pubcomp all"]
        elif r < 0.72:
            n = rng.choice(names)
            if n in conn: join(n)
        elif r < 0.82:
            n = rng.choice(names)
            if n in conn:
                pid += 1
                subs = [o.split()[3].split("|")[0] for o in ops if o.startswith(f"sub {conn[n]} ") and "$share/" in o]
                if subs: ops.append(f"unsub {conn[n]} {pid} {rng.choice(subs)}")
        elif r < 0.9:
            n = rng.choice(names)
            if n in conn:
                ops.append(rng.choice([f"close {conn[n]}", f"disc {conn[n]}"])); del conn[n]     # expiry 0: the session ends
        elif r < 0.95:
            n = rng.choice(names)
            if n in conn:
                connect(n)            # take-over with clean start: the old session (and its memberships) ends
            else:
                connect(n)
        else:
            n = rng.choice(names)
            ops.append(f"api term c{n}")
            conn.pop(n, None)
    return ops

def predicate(ops, out):
    if len(out) != len(ops) or (out and out[0].startswith("CRASH")):
        return "implementation crashed or hung: " + (out[0] if out else "")
    mode = "onlyonce"
    subs = collections.defaultdict(dict)   # cid -> {full name: dict(qos, id)}
    cid_of, online = {}, {}
    for op, line in zip(ops, out):
        if "HANG" in line:
            return f"broker did not become quiescent after `{op}`"
        f = op.split()
        kv = dict(x.split("=", 1) for x in f if "=" in x)
        pre, conns = wire.parse_line(line)
        if f[0] == "new":
            mode = kv.get("mode", "onlyonce")
        elif f[0] == "conn":
            cid_of[f[1]] = f[2]
            for c, i in list(online.items()):
                if i == f[2]: del online[c]
            online[f[1]] = f[2]
            subs[f[2]] = {}
        elif f[0] in ("close", "disc"):
            if f[1] in online:
                subs[online[f[1]]] = {}; del online[f[1]]
        elif f[0] == "api" and f[1] == "term":
            subs[f[2]] = {}
            for c, i in list(online.items()):
                if i == f[2]: del online[c]
        elif f[0] == "unsub":
            for t in f[3:]:
                subs[cid_of[f[1]]].pop(t, None)
        elif f[0] == "sub":
            h, p = conns.get(f[1], ([], []))
            sa = next((x for x in h if x.startswith("suback(")), None)
            if sa is None: return f"no SUBACK for `{op}`"
            codes = sa[sa.index(",") + 1:-1].split("+")
            tops = [x for x in f[3:] if not x.startswith("id=")]
            for tp, code in zip(tops, codes):
                ps = tp.split("|")
                if int(code) < 128:
                    subs[cid_of[f[1]]][ps[0]] = dict(qos=int(ps[1]), id=int(kv.get("id", 0)))
                if ps[0].startswith("$share/") and p:
                    return f"`{op}`: retained message(s) sent on a shared subscribe: {p}"
        elif f[0] == "pub" and f[1] == "p":
            if "tag" not in kv or kv["tag"] == "r0":
                continue
            topic, q, tag = f[2], int(kv.get("q", 0)), kv["tag"]
            groups = collections.defaultdict(list)     # full name -> [(cid, sub)]
            for cid, fs in subs.items():
                for name, o in fs.items():
                    if name.startswith("$share/"):
                        flt = name.split("/", 2)[2]
                        if mqtt_match(flt, topic):
                            groups[name].append((cid, o))
            sid_owner = {o["id"]: (cid, name) for cid, fs in subs.items() for name, o in fs.items() if name.startswith("$share/")}
            served = collections.Counter()
            for cname, (h, p) in conns.items():
                for x in p:
                    pf = wire.pub_fields(x)
                    if not pf or pf["tag"] != tag or pf["sid"] == "-":
                        continue
                    for s in pf["sid"].split("+"):
                        if int(s) in sid_owner:
                            cid, name = sid_owner[int(s)]
                            if cid != cid_of.get(cname):
                                return f"`{op}`: copy for member {cid} of {name} arrived at {cname}"
                            if name not in groups:
                                return f"`{op}`: {name} does not match {topic} (or has no such member) but {cid} received a copy through it"
                            o = subs[cid][name]
                            if pf["q"] != min(q, o["qos"]):
                                return f"`{op}`: shared copy for {cid} has QoS {pf['q']}, expected min({q},{o['qos']})"
                            served[name] += 1
            for name, members in groups.items():
                live = [m for m in members if m[0] in online.values()]
                if live and served[name] != 1:
                    return (f"`{op}`: group {name} has live members {[m[0] for m in live]} but {served[name]} copies of {tag} were delivered "
                            "through it (exactly one expected)")
                if not members and served[name]:
                    return f"`{op}`: {name} has no members but a copy was delivered through it"
    return None

def nontrivial(ops, out):
    """a share group with >= 2 members receives a message after at least one membership change"""
    groups = collections.Counter()
    changed = False
    for op, line in zip(ops, out):
        f = op.split()
        if f[0] == "sub" and "$share/" in op:
            groups[f[3].split("|")[0]] += 1
        if f[0] in ("unsub", "close", "disc") or (f[0] == "api" and f[1] == "term"):
            changed = True
        if f[0] == "pub" and changed and any(v >= 2 for v in groups.values()) and "sid=" in line and "sid=-" not in line:
            return True
    return False

def stream(tier):
    n = 500 if tier == "quick" else 15000
    return (core.Stream("broker-shared", "broker", gen, predicate, nontrivial, canon=wire.canon, keep_prefix=1,
                        hint=wire.shared_hints), n)
