"""C12 — message expiry is honoured and the remaining lifetime is forwarded (wire level, real waits)."""
from .. import core, wire

PROP = "C12"
MODULE = "GmqttVerif.Properties.C12"
THEOREMS = ["GmqttVerif.Broker.lifetime_capped",
            "GmqttVerif.Broker.lifetime_capped_queued",
            "GmqttVerif.Broker.enqueue_time_logged",
            "GmqttVerif.Broker.deliver_copies_expiry",
            "GmqttVerif.Broker.never_delivered_after_deadline",
            "GmqttVerif.Broker.pump_is_rounds",
            "GmqttVerif.Broker.forwarded_interval",
            "GmqttVerif.Broker.forwarded_interval_pkt",
            "GmqttVerif.Broker.forwarded_interval_wire"]
COMPS = ["broker"]

import itertools, random as _random
# stratified: configured maximum x waiting mode x the first message's expiry interval are walked through systematically
# (90 combinations, fixed shuffled order), everything else is random — a quick run of 96 cases covers every combination,
# in particular "no configured maximum, interval 2 s, 3.6 s offline" (seed C12-3), which pure sampling hit once in 70 cases
_GRID = list(itertools.product([0, 3, 7200], ["online", "idle", "offline", "offline-long", "unacked", "offline-long", "behind-unacked"],
                               [2, 5, 100, 0, 4294967295]))
_random.Random(12).shuffle(_GRID)
_k = [0]

def gen(rng):
    me, mode, e0 = _GRID[_k[0] % len(_GRID)]
    _k[0] += 1
    ops = [f"new mode=onlyonce me={me} se=600", "conn p cp v=5 cs=1"]
    vs = rng.choice([4, 5, 5, 5])
    ops.append(f"conn s1 cs v={vs} cs=0" + (" se=300" if vs == 5 else ""))
    ops.append(f"sub s1 1 t/#|{rng.choice([1, 1, 2, 0])}")
    tag, pid = 0, 1
    def pub(e):
        nonlocal tag, pid
        tag += 1; pid += 1
        q = rng.choice([1, 1, 2, 0]) if mode in ("online", "idle") else rng.choice([1, 2])
        line = f"pub p t/a q={q} pid={pid if q else 0} tag=m{tag}"
        if e:
            line += f" e={e}"
        ops.append(line)
        if q == 2:
            ops.append(f"rel p {pid}")
    exps = [e0] + [rng.choice([0, 2, 5, 100, 4294967295]) for _ in range(rng.choice([0, 1, 2]))]
    if mode == "online":
        for e in exps: pub(e)
    elif mode == "idle":
        ops.append("sleep 2100")
        for e in exps: pub(e)
    elif mode in ("offline", "offline-long"):
        ops.append(rng.choice(["close s1", "disc s1"]))
        for e in exps: pub(e)
        ops.append("sleep 1500" if mode == "offline" else "sleep 3600")
        ops.append(f"conn s2 cs v={vs} cs=0" + (" se=300" if vs == 5 else ""))
    elif mode == "behind-unacked":
        # a message is delivered and left unacknowledged, the connection is lost, THEN the messages under test are queued
        # behind it and wait 3.6 s: on resume they come right after the retransmission (seed C12-4)
        mode = "offline"
        pub(0)
        mode = "behind-unacked"
        ops.append("close s1")
        for e in exps: pub(e)
        ops.append("sleep 3600")
        ops.append(f"conn s2 cs v={vs} cs=0" + (" se=300" if vs == 5 else ""))
    else:
        for e in exps: pub(e)          # delivered, not acknowledged
        ops.append("close s1")
        ops.append("sleep 1500")
        ops.append(f"conn s2 cs v={vs} cs=0" + (" se=300" if vs == 5 else ""))
    last = "s2" if mode in ("offline", "offline-long", "unacked", "behind-unacked") else "s1"
    ops += [f"ack {last} puback all", f"ack {last} pubrec all", f"ack {last} pubcomp all", f"ping {last}"]
    return ops

def predicate(ops, out):
    if len(out) != len(ops) or (out and out[0].startswith("CRASH")):
        return "implementation crashed or hung: " + (out[0] if out else "")
    me = 7200
    clock = 0.0
    sent = {}            # tag -> (publish time, orig expiry, qos)
    delivered = {}       # tag -> first delivery time
    ver = {}
    online = None
    for op, line in zip(ops, out):
        if "HANG" in line:
            return f"broker did not become quiescent after `{op}`"
        f = op.split()
        kv = dict(x.split("=", 1) for x in f if "=" in x)
        pre, conns = wire.parse_line(line)
        if f[0] == "new":
            me = int(kv.get("me", 7200))
        elif f[0] == "sleep":
            clock += int(f[1]) / 1000.0
        elif f[0] == "conn" and f[2] == "cs":
            ver[f[1]] = int(kv.get("v", 4)); online = f[1]
        elif f[0] in ("close", "disc") and f[1] == online:
            online = None
        elif f[0] == "pub":
            sent[kv["tag"]] = (clock, int(kv.get("e", 0)), int(kv.get("q", 0)))
        for name, (h, p) in conns.items():
            if not name.startswith("s"):
                continue
            for x in p:
                pf = wire.pub_fields(x)
                if not pf or pf["tag"] not in sent:
                    continue
                t0, orig, q = sent[pf["tag"]]
                waited = clock - t0
                life = orig if me == 0 else (min(orig, me) if orig else me)
                first = pf["tag"] not in delivered
                if first:
                    delivered[pf["tag"]] = clock
                    if life and waited > life + 0.5:
                        return (f"`{op}`: {pf['tag']} delivered after waiting {waited:.1f}s although its lifetime is {life}s "
                                f"(expiry interval {orig or 'none'}, configured maximum {me or 'none'})")
                if ver.get(name) == 5 and orig:
                    if pf["exp"] == "-":
                        return f"`{op}`: {pf['tag']} was published with expiry interval {orig} but is forwarded without one"
                    got = int(pf["exp"])
                    w = delivered[pf["tag"]] - t0
                    lo, hi = orig - int(w) - 1, orig - int(w)
                    if got > orig or not (max(lo, 1) <= got <= hi):
                        return (f"`{op}`: {pf['tag']} published with expiry interval {orig}, waited {w:.1f}s, forwarded with {got} "
                                f"(expected {hi})")
    for tag, (t0, orig, q) in sent.items():
        life = orig if me == 0 else (min(orig, me) if orig else me)
        waited_total = clock - t0
        if q > 0 and tag not in delivered and not (life and waited_total > life - 0.5):
            return f"{tag} (QoS {q}) was never delivered although its lifetime {life or 'unlimited'}s had not passed"
    return None

def nontrivial(ops, out):
    return any(o.startswith("sleep") for o in ops) and any(" e=" in o for o in ops)

def streams(tier):
    n = 112 if tier == "quick" else 2100
    st = core.Stream("broker-expiry", "broker", gen, predicate, nontrivial, canon=wire.canon, keep_prefix=1, hint=wire.shared_hints, timeout=600)
    st.timed = True      # real waits: a failure must show again when its case is re-run (see core.correspond)
    return [(st, n)]

def run(r):
    return core.standard_run(r, __import__(__name__, fromlist=["x"]))

RULE = ("wire scenarios with real waits: publisher expiry interval {none,2,5,100,2^32-1} x configured maximum lifetime {none,3 s,2 h} x subscriber "
        "online / idle 2.1 s before the publish / offline 1.5 s or 3.6 s / unacknowledged then resumed x v3.1.1/v5 subscriber; presence and value of "
        "the forwarded Message Expiry Interval and (non-)delivery after the deadline. non-trivial = a wait and an expiry interval")
ASSUME = ["waits are chosen >= 0.5 s away from every deadline; forwarded interval accepted as orig-floor(wait) or one less"]
