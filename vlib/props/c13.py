"""C13 (topic alias part) — aliases negotiated at CONNECT hold in both directions.
streams: aliasfifo (topicalias/fifo through the public API, call sequence of registerClient/writeLoop)
         aliasin   (real broker, v5 publisher using aliases, v5 subscriber with/without aliases; observed on the wire)"""
from .. import core

PROP = "C13"
MODULE = "GmqttVerif.Properties.C13"
THEOREMS = ["GmqttVerif.Alias.outbound_alias_sound",
            "GmqttVerif.Alias.outbound_alias_used",
            "GmqttVerif.Alias.outbound_no_alias_when_zero",
            "GmqttVerif.Alias.check_panics_when_zero",
            "GmqttVerif.Alias.inbound_alias",
            "GmqttVerif.Alias.inbound_alias_fails_as_is",
            "GmqttVerif.Alias.inbound_alias_as_is_panics",
            "GmqttVerif.Alias.inbound_bind_then_use",
            "GmqttVerif.Broker.outbound_size",
            "GmqttVerif.Broker.outbound_size_partial",
            "GmqttVerif.Broker.outbound_size_full_refuted",
            "GmqttVerif.Broker.pump_keeps_online",
            "GmqttVerif.Broker.outbound_alias_range_and_resolution",
            "GmqttVerif.Broker.inbound_alias_verdicts",
            "GmqttVerif.Broker.inbound_alias_refines_spec",
            "GmqttVerif.Broker.inbound_quota",
            "GmqttVerif.Broker.inbound_quota_never_refused",
            "GmqttVerif.Broker.inbound_quota_exceeded_kicked",
            "GmqttVerif.Broker.inbound_size",
            "GmqttVerif.Broker.negotiate_ok", "GmqttVerif.Broker.validCfg_iff_validB",
            "GmqttVerif.Broker.receive_maximum_zero_starves"]
EXTRA_MODULES = ['GmqttVerif.Properties.C13Broker']
COMPS = ["aliasfifo", "aliasin", "broker"]

TOPICS = ["a", "b", "c", "d/e", "f", "g", "h", "i"]

# ---------------------------------------------------------------- outbound: the manager + writeLoop rewriting


def gen_fifo(rng):
    mx = rng.choice([0, 1, 1, 2, 2, 3, 3, 5, 8, 65535])
    raw = mx > 0 and rng.random() < 0.3          # raw Check calls instead of the writeLoop wrapper
    ops = [f"new {mx}"]
    k = rng.choice([1, 2, mx, mx + 1, mx + 2, 8]) if mx < 100 else rng.choice([3, 8])
    pool = TOPICS[:max(1, min(k, len(TOPICS)))]
    n = rng.choice([3, 8, 20, 60])
    hot = rng.choice(pool)
    for _ in range(rng.randint(1, n)):
        t = hot if rng.random() < 0.25 else rng.choice(pool)
        ops.append(("check " if raw else "pub ") + t)
    if mx == 0 and rng.random() < 0.3:
        ops.append("check a")                     # unguarded Check on a manager with maximum 0
    return ops


def fifo_packets(ops, out):
    """(topic of the message, wire topic or None, wire alias or None) per op; writeLoop's rewriting applied to raw Check results"""
    res = []
    for op, o in zip(ops, out):
        f = op.split()
        if f[0] == "new":
            continue
        w = o.split()
        if f[0] == "pub":
            if len(w) != 2:
                return None, f"unparsable result `{o}` for `{op}`"
            res.append((op, f[1], None if w[0] == "-" else w[0], None if w[1] == "-" else int(w[1])))
        else:
            if len(w) != 2:
                return None, f"unparsable result `{o}` for `{op}`"
            a, e = int(w[0]), w[1] == "1"
            res.append((op, f[1], None if e else f[1], a if (e or a != 0) else None))
    return res, None


def replay_receiver(mx, pkts, table=None):
    """MQTT 5 §3.3.2.3.4 receiver with Topic Alias Maximum mx. pkts: (label, real topic, wire topic, wire alias)."""
    table = {} if table is None else table
    for op, real, wt, wa in pkts:
        if wa is None:
            got = wt
            if wt is None:
                return f"`{op}`: packet without topic name and without alias"
        else:
            if wa < 1 or wa > mx:
                return f"`{op}`: alias {wa} sent, the receiver's Topic Alias Maximum is {mx}"
            if wt is not None:
                table[wa] = wt
                got = wt
            else:
                if wa not in table:
                    return f"`{op}`: alias {wa} used with empty topic name but never announced on this connection"
                got = table[wa]
        if got != real:
            return f"`{op}`: the receiver resolves the packet to topic `{got}`, the message's topic is `{real}`"
    return None


def pred_fifo(ops, out):
    if len(out) != len(ops) or (out and out[0].startswith("CRASH")):
        return "implementation crashed or hung: " + (out[0] if out else "")
    mx = int(ops[0].split()[1])
    for op, o in zip(ops, out):
        if o == "bad-op":
            return f"unexpected result `{o}` for `{op}`"
        if o == "panic" and not (mx == 0 and op.startswith("check")):
            return f"panic in `{op}`"
    keep = [(op, o) for op, o in zip(ops, out) if o != "panic"]
    pkts, why = fifo_packets([k[0] for k in keep], [k[1] for k in keep])
    if why:
        return why
    if mx == 0:
        for op, real, wt, wa in pkts:
            if op.startswith("pub") and (wa is not None or wt != real):
                return f"`{op}`: alias/empty topic sent although the client's Topic Alias Maximum is 0"
        pkts = [p for p in pkts if p[0].startswith("pub")]
    return replay_receiver(mx, pkts)


def nontrivial_fifo(ops, out):
    """an alias is re-bound to another topic (eviction) and a packet is later sent with an empty topic name"""
    pkts, why = fifo_packets(ops, [o if o != "panic" else "0 0" for o in out])
    if why or not pkts:
        return False
    bound, rebound = {}, False
    for _, _, wt, wa in pkts:
        if wa is not None and wt is not None:
            if wa in bound and bound[wa] != wt:
                rebound = True
            bound[wa] = wt
        elif wa is not None and rebound:
            return True
    return False

# ---------------------------------------------------------------- inbound (and the real writeLoop) on the wire


def gen_in(rng):
    ta = rng.choice([0, 1, 2, 3, 3, 5, 10, 10, 100, 65535])
    r = rng.random()
    if r < 0.70:
        rm = rng.choice([max(ta, 1), ta + 1, ta + 5, 100, 65534]) if ta < 65535 else 65534
    elif r < 0.85:
        rm = rng.choice([1, 1, max(1, ta - 1), max(1, ta // 2)])      # receive maximum below the alias maximum
    else:
        rm = 65535
    rm = max(1, min(rm, 65535))
    sub = rng.choice([None, None, 0, 1, 2, 3])
    ops = [f"connect {ta} {rm}" + ("" if sub is None else f" {sub}")]
    bound = []

    def refusal():
        if rng.random() < 0.5 and ta < 65535:      # out of range
            return f"pub {rng.choice([0, ta + 1, ta + 1, 65535, min(65535, ta + 2)])} {rng.choice(['a', '-'])}"
        if rng.random() < 0.3:
            return f"pub 0 {rng.choice(['a', '-'])}"
        free = [x for x in (1, ta, max(1, ta - 1), 2) if x not in bound]   # in range, never bound, empty topic name
        return f"pub {rng.choice(free)} -" if free else f"pub 0 -"

    for _ in range(rng.randint(1, rng.choice([3, 6, 14]))):
        r = rng.random()
        if r < 0.50 and ta > 0:      # bind / rebind an alias in range (boundaries preferred)
            a = rng.choice([1, ta, ta, max(1, ta - 1), rng.randint(1, max(1, ta))])
            ops.append(f"pub {a} {rng.choice(TOPICS[:4])}")
            bound.append(a)
        elif r < 0.80 and bound:   # use a bound alias
            ops.append(f"pub {rng.choice(bound)} -")
        elif r < 0.97:
            ops.append(f"pub - {rng.choice(TOPICS[:4])}")
        else:                      # a refusal in the middle: everything after it must find the connection gone
            ops.append(refusal())
    if rng.random() < 0.5:
        ops.append(refusal())
        if rng.random() < 0.3:
            ops.append("pub - a")
    return ops


def pred_in(ops, out):
    if len(out) != len(ops) or (out and out[0].startswith("CRASH")):
        return "implementation crashed or hung: " + (out[0] if out else "")
    ta = rm = 0
    sub = None
    bound, rtable, up = {}, {}, False
    for op, o in zip(ops, out):
        f = op.split()
        if o == "bad-op" or o.startswith("err-") or o in ("invalid-config", "subscriber-lost", "hung-send"):
            return f"unexpected result `{o}` for `{op}`"
        if f[0] == "connect":
            ta, rm = int(f[1]), int(f[2])
            sub = int(f[3]) if len(f) == 4 else None
            bound, rtable, up = {}, {}, True
            if o != f"ok ta={ta} rm={rm}":
                return f"`{op}`: CONNACK advertises `{o}`, configured topic_alias_maximum={ta} server_receive_maximum={rm}"
            continue
        if not up:
            if o != "closed":
                return f"`{op}` after the connection ended: `{o}`"
            continue
        a = None if f[1] == "-" else int(f[1])
        t = None if f[2] == "-" else f[2]
        if a is None and t is None:
            return None        # zero-length topic without alias: finding F18 (C01), not judged here
        # what MQTT 5 §3.3.2.3.4 requires of a server that advertised Topic Alias Maximum ta
        if a is None:
            want = t
        elif a == 0 or a > ta:
            want = "disc:94"
        elif t is not None:
            want = t
        else:
            want = bound.get(a, "disc:94")
        if want == "disc:94":
            if o != "disc:94":
                return f"`{op}` (advertised maximum {ta}): expected DISCONNECT 0x94, got `{o}`"
            up = False
            continue
        w = o.split()
        if w[0] != "ok":
            why = "within the advertised Topic Alias Maximum" if a is not None else "without alias"
            return (f"`{op}` ({why} {ta}, receive maximum {rm}) must be accepted and routed under `{want}`; "
                    f"the broker answered `{o}`")
        if a is not None and t is not None:
            bound[a] = t
        if sub is None:
            if len(w) != 2 or w[1] != want:
                return f"`{op}`: routed under `{' '.join(w[1:])}`, expected `{want}`"
        else:
            if len(w) != 3:
                return f"unparsable result `{o}` for `{op}`"
            pk = (op, want, None if w[1] == "-" else w[1], None if w[2] == "-" else int(w[2]))
            why = replay_receiver(sub, [pk], rtable)
            if why:
                return "subscriber side: " + why
    return None


def nontrivial_in(ops, out):
    """an alias is bound, used with an empty topic name, re-bound and used again; or alias = advertised maximum is used"""
    ta = int(ops[0].split()[1])
    seq = {}
    for op, o in zip(ops[1:], out[1:]):
        f = op.split()
        if not o.startswith("ok") or f[1] == "-":
            continue
        if int(f[1]) == ta:
            return True
        st = seq.get(f[1], 0)
        if f[2] != "-":
            seq[f[1]] = 1 if st == 0 else (3 if st >= 2 else st)
        else:
            seq[f[1]] = 2 if st == 1 else (4 if st == 3 else st)
        if seq[f[1]] == 4:
            return True
    return False


def rec_f02(info):
    """the broker behaves exactly like the model of the unpatched code (`>=` and mapper sized by the receive maximum)"""
    if info["stream"] != "aliasin":
        return False
    asis = core.run_cases([core.oracle_exe("aliasin"), "asis"], [info["ops"]])[0]
    return asis == info["impl"] and asis != info["model"]


def rec_f42(info):
    """like the unpatched model except that a DISCONNECT the model predicts was not received (`hung` / `closed` instead)"""
    if info["stream"] != "aliasin":
        return False
    asis = core.run_cases([core.oracle_exe("aliasin"), "asis"], [info["ops"]])[0]
    impl = info["impl"]
    if len(asis) != len(impl) or asis == impl:
        return False
    return all(a == b or (a.startswith("disc:") and b in ("hung", "closed")) for a, b in zip(asis, impl))


def _f40(info):
    from . import c13wire
    return c13wire.rec_f40(info)

RECOGNISERS = {"f02": rec_f02, "f42": rec_f42, "alias_property_after_size_check": _f40}


def streams(tier):
    q = tier == "quick"
    from . import c13wire
    return [(core.Stream("aliasfifo", "aliasfifo", gen_fifo, pred_fifo, nontrivial_fifo, keep_prefix=1), 40000 if q else 1000000),
            # `drive_aliasin` uses wall-clock waits; under heavy machine load they can expire, so the quick tier keeps it small
            # (the same clauses are covered with exact quiescence by the stream broker-limits)
            (core.Stream("aliasin", "aliasin", gen_in, pred_in, nontrivial_in, keep_prefix=1, timeout=900), 300 if q else 100000),
            c13wire.stream(tier), _backlog(tier), c13wire.stream_cfg(tier), c13wire.stream_pp(tier)]

def _backlog(tier):
    # Maximum Packet Size across a session resume, oversize messages in a backlog (shared with C01)
    from . import c01
    return (core.Stream("broker-backlog", "broker", c01.gen_backlog, c01.predicate_backlog, c01.nontrivial_backlog, canon=c01.canon,
                        keep_prefix=1), 300 if tier == "quick" else 10000)



def run(r):
    return core.standard_run(r, __import__(__name__, fromlist=["x"]))


RULE = ("aliasfifo: fifo.New(cfg, max, id) with max in {0,1,2,3,5,8,65535} then 1-60 Check calls (raw, or wrapped in the rewriting "
        "writeLoop applies) over 1..max+2 topics with a hot topic, through the real code and the Lean model, compared line by line; the "
        "predicate replays the emitted (topic-or-empty, alias) pairs through an MQTT 5 receiver table. non-trivial = an alias is re-bound "
        "after eviction and a later packet goes out with an empty topic name. "
        "aliasin: one real in-process broker per case with topic_alias_maximum in {0,1,2,3,5,10,100,65535} x server_receive_maximum "
        "above / equal / below it / 65535; a v5 publisher sends 1-14 QoS 0 PUBLISH packets with alias in {none,0,1,max-1,max,max+1,65535,random} "
        "with or without topic name (bind, use, re-bind, unbound use); a v5 subscriber on `#` declaring Topic Alias Maximum none/0/1/2/3 "
        "reports what arrives on the wire; compared with the composition of the Lean models (inbound, then writeLoop); the predicate "
        "re-checks MQTT 5 §3.3.2.3.4 on both sides. non-trivial = bind/use/re-bind/use of one alias, or alias = advertised maximum")
ASSUME = ["aliasfifo `pub` replicates the three-line rewriting of writeLoop in the driver; the real writeLoop is what stream aliasin observes",
          "topics are non-empty and contain no space (zero-length topic without alias is finding F18, property C01)",
          "one writeLoop goroutine per connection calls Check (no concurrent use of a manager)",
          "only the topic alias part of C13 is covered here: packet size limits, receive quota and config validation are other streams"]
