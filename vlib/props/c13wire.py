"""C13 (wire part) — limits negotiated at CONNECT hold in both directions: packet size, topic aliases, receive quota."""
import re
from .. import core, wire

TOPICS = ["a", "b", "c/d", "e/f/g"]

def gen(rng):
    rm = rng.choice([1, 2, 3, 10])
    ta = rng.choice([0, 1, 2, 5, 10])
    smp = rng.choice([40, 60, 268435456, 268435456])
    ops = [f"new mode=onlyonce rm={rm} ta={ta} mp={smp} mi=100"]
    ops.append("conn p cp v=5 cs=1")
    cmp_ = rng.choice([None, None, 24, 30, 40])
    cta = rng.choice([None, 0, 1, 2, 3])
    line = "conn s cs v=5 cs=1"
    if cmp_ is not None: line += f" mp={cmp_}"
    if cta is not None: line += f" ta={cta}"
    ops.append(line)
    ops.append("sub s 1 #|1")
    pid, tag = 1, 0
    aliases = [0, 1, 1, 2, ta - 1, ta, ta, ta + 1, 65535]
    bound = {}
    for _ in range(rng.randint(3, 14)):
        r = rng.random()
        tag += 1; pid += 1
        topic = rng.choice(TOPICS)
        if r < 0.45:
            # alias traffic
            a = rng.choice([x for x in aliases if x >= 0])
            use_empty = a in bound and rng.random() < 0.6 or rng.random() < 0.1
            t = "~" if use_empty else topic
            if not use_empty: bound[a] = topic
            q = rng.choice([0, 1])
            ops.append(f"pub p {t} q={q} pid={pid if q else 0} a={a} tag=m{tag}")
        elif r < 0.75:
            # sizes around the subscriber's (and the server's) limits
            limit = cmp_ if cmp_ is not None and rng.random() < 0.7 else (smp if smp < 1000 else 30)
            n = max(0, limit - rng.choice([14, 12, 11, 10, 9, 8, 7, 6, 4]))
            q = rng.choice([0, 1])
            ops.append(f"pub p {topic} q={q} pid={pid if q else 0} tag=m{tag} n={n}")
        elif r < 0.9:
            # outstanding QoS 2 publishes hold receive quota until PUBREL/PUBCOMP; a retransmission (same id, DUP) of an
            # outstanding one does not take another slot
            ops.append(f"pub p {topic} q=2 pid={pid} tag=m{tag}")
            if rng.random() < 0.35:
                ops.append(f"pub p {topic} q=2 pid={pid} d=1 tag=m{tag}")
            if rng.random() < 0.4:
                ops.append(f"rel p {pid}")
            elif rng.random() < 0.25:
                # PUBREL for an identifier the broker does not know: the PUBCOMP it is answered with increments the
                # sender's quota like any other PUBCOMP (MQTT 5 section 4.9), never above the initial value
                ops.append(f"rel p {pid + 500}")
        else:
            ops.append(f"pub p {topic} q=1 pid={pid} tag=m{tag}")
        ops.append("ack s puback all")
    ops.append("ping p"); ops.append("ping s")
    return ops

def predicate(ops, out):
    if len(out) != len(ops) or (out and out[0].startswith("CRASH")):
        return "implementation crashed or hung: " + (out[0] if out else "")
    rm = ta = 0; smp = 268435456
    cmp_ = None; cta = 0
    topic_of = {}          # tag -> real topic
    table = {}             # subscriber's alias table (client side)
    in_alias = {}          # publisher's alias bindings as the spec defines them
    outstanding = set()    # publisher's QoS 2 packet ids not yet released (a retransmission of one takes no quota)
    quota = None           # the publisher's send quota as MQTT 5 section 4.9 defines it: starts at the advertised Receive
                           # Maximum, -1 for every QoS>0 PUBLISH sent, +1 (capped) for every PUBACK / PUBCOMP / failing PUBREC received
    p_alive = True
    for op, line in zip(ops, out):
        if "HANG" in line:
            return f"broker did not become quiescent after `{op}`"
        f = op.split()
        kv = dict(x.split("=", 1) for x in f if "=" in x)
        pre, conns = wire.parse_line(line)
        if f[0] == "new":
            rm, ta, smp = int(kv["rm"]), int(kv["ta"]), int(kv["mp"])
            quota = rm
        elif f[0] == "conn" and f[1] == "s":
            cmp_ = int(kv["mp"]) if "mp" in kv else None
            cta = int(kv.get("ta", 0))
        # everything the subscriber receives respects ITS limits
        for x in conns.get("s", ([], []))[1]:
            pf = wire.pub_fields(x)
            if not pf: continue
            if cmp_ is not None and pf["sz"] > cmp_:
                why = f"`{op}`: PUBLISH of {pf['sz']} bytes sent to a client whose Maximum Packet Size is {cmp_}"
                if pf["al"] != "-" and pf["sz"] - cmp_ <= 3:
                    why += " [topic alias property added after the size check]"
                return why
            real = topic_of.get(pf["tag"])
            if pf["al"] != "-":
                a = int(pf["al"])
                if not (1 <= a <= cta):
                    return f"`{op}`: topic alias {a} sent to a client whose Topic Alias Maximum is {cta}"
                if pf["t"] != "~":
                    table[a] = pf["t"]
                elif a not in table:
                    return f"`{op}`: zero-length topic with alias {a} that was never bound on this connection"
                resolved = table[a]
            else:
                if pf["t"] == "~":
                    return f"`{op}`: PUBLISH with zero-length topic and no alias"
                resolved = pf["t"]
            if real is not None and resolved != real:
                return f"`{op}`: message {pf['tag']} published on {real} resolves to {resolved} at the subscriber"
        if f[0] == "pub" and f[1] == "p" and p_alive:
            h = conns.get("p", ([], []))[0]
            disc = next((x for x in h if x.startswith("disconnect(")), None)
            closed = "closed" in h
            q = int(kv.get("q", 0)); pid = kv.get("pid", "0")
            a = int(kv["a"]) if "a" in kv else None
            topic = f[2]
            # what the limits advertised in CONNACK allow
            want = None
            also = set()         # further limits violated by the same packet: any of their codes is a correct refusal
            if q > 0 and quota <= 0 and not (q == 2 and pid in outstanding):
                want = 147           # 0x93 Receive Maximum exceeded
            # size of the packet as sent is not reconstructed here: only the clear cases
            if a is not None:
                if a == 0 or a > ta:
                    also.add(148)    # 0x94 Topic Alias invalid
                elif topic == "~":
                    if a not in in_alias: also.add(148)
                    elif want is None: topic = in_alias[a]
                elif want is None:
                    in_alias[a] = topic
            if a is None and topic == "~":
                also.add(130)
            if want is None and also:
                want = sorted(also)[0]
            n = int(kv.get("n", 0))
            approx = 2 + 2 + len(f[2].replace("~", "")) + (2 if q else 0) + 1 + (3 if a is not None else 0) + max(n, len(kv.get("tag", "")))
            if want is None and approx > smp:
                want = 149           # 0x95 Packet too large
            if want is None and q == 2 and pid in outstanding and quota <= 0 and disc == "disconnect(147)":
                # a same-connection retransmission while the quota is used up: MQTT 5 forbids resending inside a connection
                # (MQTT-4.4.0-1) and section 4.9 would count it, so refusing it is as correct as accepting it; what the
                # check insists on is that an accepted one never leaks quota (F59)
                p_alive = False
                continue
            if want is not None:
                if disc != f"disconnect({want})" and disc not in [f"disconnect({k})" for k in also]:
                    if not (want == 149 and disc is None):
                        return f"`{op}`: expected DISCONNECT with reason code {want}, got {h}"
                p_alive = False
                continue
            if disc or closed:
                if approx + 2 > smp:       # borderline size: not judged
                    p_alive = False; continue
                return f"`{op}`: the client stayed within the advertised limits (receive maximum {rm}, alias maximum {ta}, packet size {smp}) but was disconnected: {h}"
            topic_of[kv.get("tag")] = topic
            if q > 0:
                if not (q == 2 and pid in outstanding): quota -= 1
                if q == 2: outstanding.add(pid)
                ack = next((x for x in h if x.startswith(("puback(" + pid, "pubrec(" + pid))), None)
                if ack is None:
                    return f"`{op}`: no acknowledgement for packet id {pid}: {h}"
        elif f[0] == "rel" and f[1] == "p":
            outstanding.discard(f[2])
        if p_alive and quota is not None:
            for x in conns.get("p", ([], []))[0]:
                if x.startswith(("puback(", "pubcomp(")) or (x.startswith("pubrec(") and int(x[7:-1].split(",")[1]) >= 128):
                    quota = min(rm, quota + 1)
        elif f[0] == "ping" and f[1] == "s":
            if "pingresp" not in conns.get("s", ([], []))[0]:
                return f"`{op}`: the subscriber's connection did not stay up"
    return None

def nontrivial(ops, out):
    """an alias is used in either direction, or a message is dropped for size, or a limit violation is refused"""
    return any(",al=" in l and ",al=-" not in l for l in out) or any("disconnect(14" in l for l in out)

def rec_f40(info):
    """F40: writeLoop adds the 3-byte Topic Alias property after the queue's size check"""
    return info["kind"] == "predicate" and "[topic alias property added after the size check]" in (info.get("why") or "")

def stream(tier):
    n = 500 if tier == "quick" else 15000
    return (core.Stream("broker-limits", "broker", gen, predicate, nontrivial, canon=wire.canon, keep_prefix=1,
                        hint=wire.shared_hints), n)


# ------------------------------------------------------------------ configurations: the validator and what a valid one negotiates

def gen_cfg(rng):
    """boundary configurations through `new` (config.MQTT.Validate on the real side, Cfg.validB + the two unmodelled clauses
    on the model side), then — when a broker exists — a v5 CONNECT whose CONNACK must advertise exactly the configured
    limits, and a little traffic under them"""
    maxq = rng.choice([0, 1, 2, 5, 100, 1000])
    mi = rng.choice([0, 1, 2, 5, 100, 101, 65535])
    rm = rng.choice([0, 1, 2, 100, 65535])
    mp = rng.choice([0, 200, 5000, 268435456])
    ta = rng.choice([0, 1, 10, 65535])
    qos = rng.choice([2, 2, 2, 3])
    mode = rng.choice(["overlap", "onlyonce", "onlyonce", "bogus"])
    # feature switches the CONNACK advertises and SUBSCRIBE / PUBLISH must honour (shared / wildcard subscriptions, subscription
    # identifiers, retained messages available or not)
    flags = {k: rng.choice([1, 1, 0]) for k in ("shared", "wild", "subid", "ret")}
    ops = [f"new mode={mode} maxq={maxq} mi={mi} rm={rm} ta={ta} mp={mp} qos={qos} " + " ".join(f"{k}={v}" for k, v in flags.items())]
    ops.append("conn p cp v=5 cs=1")
    crm = rng.choice([None, 1, 3, 65535]); cta = rng.choice([None, 0, 2]); cmp_ = rng.choice([None, 60, 4000])
    line = f"conn s cs v={rng.choice([4, 5, 5])} cs=1"
    if " v=5" in line:
        if crm is not None: line += f" rm={crm}"
        if cta is not None: line += f" ta={cta}"
        if cmp_ is not None: line += f" mp={cmp_}"
    ops.append(line)
    ops.append("sub s 1 t/#|1")
    ops.append(f"sub s 2 $share/g/u/a|1 u/+|1" + (" id=7" if rng.random() < 0.6 else ""))
    ops.append("sub s 3 v/a|1 id=9")
    for i in range(rng.randint(1, 4)):
        ops.append(f"pub p t/a q={rng.choice([0, 1])} pid={i + 1} tag=c{i}")
    ops += ["ack s puback all", "ping s", "ping p"]
    ops.append(f"pub p u/a q=0 pid=0 r={rng.choice([0, 1])} tag=cr")
    ops += ["ping s", "ping p"]
    return ops

def pred_cfg(ops, out):
    if len(out) != len(ops) or (out and out[0].startswith("CRASH")):
        return "implementation crashed or hung: " + (out[0] if out else "")
    kv = dict(x.split("=", 1) for x in ops[0].split()[1:])
    maxq, mi, rm, mp, ta, qos = (int(kv[k]) for k in ("maxq", "mi", "rm", "mp", "ta", "qos"))
    # config.MQTT.Validate as documented in config/mqtt.go and the configuration reference
    valid = qos <= 2 and maxq > 0 and rm != 0 and mp != 0 and mi != 0 and kv["mode"] in ("overlap", "onlyonce") and maxq >= mi
    if (out[0] == "ok") != valid:
        return f"`{ops[0]}`: the validator answered `{out[0]}`, the documented rules say {'valid' if valid else 'invalid'}"
    if not valid:
        return None
    for op, line in zip(ops[1:], out[1:]):
        if "HANG" in line or line.startswith(("panic", "CRASH")):
            return f"`{op}` -> {line[:80]}: a configuration the validator accepts must not wedge or crash the broker"
        if op.startswith("conn ") and " v=5" in op:
            m = re.search(r"connack\(sp=\d,code=(\d+),se=\d+,rm=(\d+),ta=(\d+),mp=(\d+),", line)
            if not m:
                return f"`{op}`: no v5 CONNACK in `{line[:120]}`"
            if int(m.group(1)) == 0 and (int(m.group(2)), int(m.group(3)), int(m.group(4))) != (rm, ta, mp):
                return (f"`{op}`: CONNACK advertises Receive Maximum {m.group(2)}, Topic Alias Maximum {m.group(3)}, Maximum Packet Size "
                        f"{m.group(4)}; configured {rm}, {ta}, {mp}")
    return None

def stream_cfg(tier):
    n = 150 if tier == "quick" else 6000
    return (core.Stream("config-validate", "broker", gen_cfg, pred_cfg, lambda ops, out: out and out[0] == "ok", canon=wire.canon,
                        keep_prefix=1, hint=wire.shared_hints), n)


# ------------------------------------------------------------------ a client with one publish in flight, answering acks at once

def gen_pp(rng):
    """`server_receive_maximum` 1-3, the broker's socket writes return 5-30 ms after the client has seen the bytes; a v5 client keeps
    exactly one QoS>0 publish in flight and sends the next the moment the acknowledgement arrives: it never exceeds any Receive
    Maximum >= 1 and must never be refused for it, however the broker's reader and writer goroutines interleave (seed C13-4)"""
    rm = rng.choice([1, 1, 2, 3])
    ops = [f"new mode=onlyonce rm={rm} ta=10 mp=268435456 mi=100 wdelay={rng.choice([5, 15, 30])}", "conn p cp v=5 cs=1"]
    pid = 1000
    for _ in range(rng.randint(1, 3)):
        k = rng.choice([3, 5, 8])
        ops.append(f"pp p k={k} q={rng.choice([1, 1, 2])} pid0={pid}")
        pid += k
        ops.append("ping p")
    return ops

def pred_pp(ops, out):
    if len(out) != len(ops) or (out and out[0].startswith("CRASH")):
        return "implementation crashed or hung: " + (out[0] if out else "")
    for op, o in zip(ops, out):
        if "HANG" in o:
            return f"broker did not become quiescent after `{op}`"
        if op.startswith("pp "):
            k = int(next(x[2:] for x in op.split() if x.startswith("k=")))
            if o != f"pp acks={k} disc=- closed=0":
                return (f"`{op}`: a client with ONE publish in flight at a time got `{o}` — it stayed within the advertised Receive "
                        f"Maximum and must not be disconnected or left without its acknowledgements")
        if op.startswith("ping ") and "pingresp" not in o:
            return f"`{op}`: the connection is gone ({o})"
    return None

def stream_pp(tier):
    n = 40 if tier == "quick" else 600
    return (core.Stream("receive-quota-pingpong", "broker", gen_pp, pred_pp, lambda ops, out: True, canon=wire.canon, keep_prefix=2), n)
