"""C14 — hook decisions are enforced; plugin wrappers compose in configured order.

Proof side: Properties/C14.lean (generated facts about initPluginHooks, the wrapper fold, the broker model with verdict
inputs). Tie: the fact extractor (regenerated on every run) and one wire stream: recording / verdict plugins
(harness/cmd/drive_broker/hooks.go) in every plugin order against oracle_brokerhooks."""
import itertools, os, re, sys
from .. import core, wire

PROP = "C14"
MODULE = "GmqttVerif.Properties.C14"
N = "GmqttVerif.C14."
THEOREMS = [N + t for t in (
    "all_wrappers_installed", "hooks_installed_before_captured", "wrapper_hook_names_match", "folds_run_last_to_first", "kinds_listed_once",
    "wrappers_nest", "wrappers_fire_once", "forward_loop_would_reverse",
    "connect_reject_clean", "auth_exchange_clean", "connect_continue_clean",
    "subscribe_verdict_error", "subscribe_verdict_state", "subscribe_verdict_suback", "unsubscribe_verdict",
    "msg_verdict_refused", "msg_verdict_ack", "msg_verdict_rewritten", "msg_verdict_retained", "msg_verdict_routed",
    "will_verdict",
    "terminateSH_neutral", "unregisterH_neutral", "kickH_neutral", "closeH_neutral", "sleepH_neutral",
    "subscribeH_neutral", "unsubscribeH_neutral", "publishPost_accept", "publish_eq_head_tail", "publishH_neutral",
    "preConnect_neutral")]
COMPS = ["brokerhooks", "hookrestore"]      # Lean oracles; the Go side of brokerhooks is drive_broker (+ hooks.go)
GO_EXTRA = ["broker"]
NEEDS_FACTS = ["Hooks"]

# hook kinds whose events the Lean oracle predicts; the others are checked by the predicate only
UNMODELLED = ("OnDelivered", "OnMsgDropped", "OnStop")
# kinds the generator exercises first when the generated-facts theorem fails for them (filled by run())
PRIORITY = []

EV = re.compile(r"^([A-Za-z]+)\((.*)\):(.*)$")

# ------------------------------------------------------------------------------------------------ generator

PLUGINS = ["a", "b", "c"]
ORDERS = [list(p) for k in (1, 2, 3) for p in itertools.permutations(PLUGINS, k)]
CONNECT_CODES = [1, 2, 4, 5, 6, 127, 128, 130, 132, 134, 135, 136, 137, 138, 140, 151, 159, 255]
PUB_CODES = [128, 131, 135, 144, 145, 151, 153, 255, 16, 1]
SUB_CODES = [128, 131, 135, 143, 145, 151, 158, 161, 162, 255]
UNSUB_CODES = [128, 131, 135, 143, 145, 17]


def gen(rng, focus=None):
    order = rng.choice(ORDERS)
    base = rng.choice([0, 1, 1])
    ops = [f"new order={','.join(order)} base={base} mode={rng.choice(['overlap', 'onlyonce'])}"]
    who = lambda: rng.choice(order + (["base"] if base else []))
    n = {"pid": 0, "tag": 0, "conn": 0, "t": 0}
    def tag():
        n["tag"] += 1; return f"m{n['tag']}"
    def pid():
        n["pid"] += 1; return n["pid"]
    def topic(pfx="t"):
        n["t"] += 1; return f"{pfx}/{n['t']}"
    def conn():
        n["conn"] += 1; return f"c{n['conn']}"
    def log(snap=False):
        ops.append("hooklog")
        if snap: ops.append("api snapshot")

    # the observer: sees every application message and every will
    sv = rng.choice([4, 5, 5])
    ops.append(f"conn s sx v={sv}")
    ops.append("sub s 1 #|2")
    log(True)

    def connect_block():
        for _ in range(rng.randint(1, 3)):
            v = rng.choice([3, 4, 5, 5])
            cn, cid = conn(), f"x{n['conn']}"
            r = rng.random()
            extra = ""
            if rng.random() < 0.4:
                extra = f" will=w/{cid},{rng.choice([0, 1])},0,0,W{n['conn']}"
            if v == 5 and rng.random() < 0.35:
                # the Authentication Method property is PRESENT with a zero-length value: that is enhanced authentication
                # (AuthMethod != nil). Exactly one of the two auth hooks must run, and its verdict decides.
                mode = rng.choice(["both", "both", "enh", "basic", "none"])
                if mode in ("both", "basic"):
                    ops.append(f"hook OnBasicAuth {who()} code={rng.choice(CONNECT_CODES)}")
                if mode in ("both", "enh"):
                    ops.append(f"hook OnEnhancedAuth {who()} code={rng.choice(CONNECT_CODES)}")
                ops.append(f"conn {cn} {cid} v=5 am={extra}"); log(True)
                ops.append("hook clear")
                continue
            if r < 0.55:
                kv = f"code={rng.choice(CONNECT_CODES)}" if rng.random() < 0.8 else "plain=1"
                ops.append(f"hook OnBasicAuth {who()} {kv}")
                if v == 5 and rng.random() < 0.3:      # a verdict of the hook that must NOT run changes nothing
                    ops.append(f"hook OnEnhancedAuth {who()} continue=1")
                ops.append(f"conn {cn} {cid} v={v}{extra}"); log(True)
                ops.append("hook clear")
                if rng.random() < 0.5:      # the same client id is accepted afterwards: nothing was left behind
                    cn2 = conn()
                    ops.append(f"conn {cn2} {cid} v={v} cs=0"); log(True)
            elif r < 0.7:
                ops.append(f"hook OnAccept {who()} accept=0")
                ops.append(f"conn {cn} {cid} v={v}{extra}"); log(True)
                ops.append("hook OnAccept clear")
            else:
                ops.append(f"conn {cn} {cid} v={v}{extra}"); log(True)
                if rng.random() < 0.5:
                    ops.append(f"close {cn}"); log(True)

    def enhanced_block():
        cn, cid = conn(), f"e{n['conn']}"
        r = rng.random()
        if r < 0.3:
            kv = f"code={rng.choice(CONNECT_CODES)}" if rng.random() < 0.7 else rng.choice(["plain=1", "nilresp=1"])
            ops.append(f"hook OnEnhancedAuth {who()} {kv}")
            ops.append(f"conn {cn} {cid} v=5 am=M"); log(True)
            ops.append("hook OnEnhancedAuth clear")
            return
        if r < 0.65:
            # challenge / response: Continue = true, then the OnAuth callback decides each further AUTH packet
            ops.append(f"hook OnEnhancedAuth {who()} continue=1")
            if rng.random() < 0.3:
                ops.append(f"hook OnBasicAuth {who()} code={rng.choice(CONNECT_CODES)}")     # must not run
            ops.append(f"conn {cn} {cid} v=5 am=M"); log(True)
            for _ in range(rng.choice([0, 0, 1, 2])):
                ops.append("hook OnAuth base continue=1")
                ops.append(f"auth {cn} code=24 am=M ad=x"); log(True)
            if rng.random() < 0.4:
                ops.append(f"hook OnAuth base code={rng.choice(CONNECT_CODES)}" if rng.random() < 0.8 else "hook OnAuth base nilresp=1")
                ops.append(f"auth {cn} code=24 am=M ad=x"); log(True)
                ops.append("hook clear")
                return
            ops.append("hook clear")
            ops.append(f"auth {cn} code=24 am=M ad=x"); log(True)
        else:
            ops.append(f"conn {cn} {cid} v=5 am=M"); log(True)
        # re-authentication on the established connection (the broker compares the method with the packet's
        # Authentication Data, so the script sends ad = method)
        for _ in range(rng.randint(1, 2)):
            r2 = rng.random()
            if r2 < 0.4:
                ops.append(f"auth {cn} code=25 am=M ad=M"); log()
            elif r2 < 0.7:
                ops.append(f"hook OnReAuth {who()} continue=1")
                ops.append(f"auth {cn} code=25 am=M ad=M"); log()
                ops.append("hook OnReAuth clear")
            else:
                ops.append(f"hook OnReAuth {who()} code={rng.choice([128, 135, 140, 255])}")
                ops.append(f"auth {cn} code=25 am=M ad=M"); log(True)
                ops.append("hook OnReAuth clear")
                return

    def client(v=None):
        v = v or rng.choice([3, 4, 5, 5])
        cn, cid = conn(), f"p{n['conn']}"
        ops.append(f"conn {cn} {cid} v={v}"); log(True)
        return cn, cid, v

    def subscribe_block():
        cn, cid, v = client()
        for _ in range(rng.randint(1, 3)):
            ts = [topic("u") for _ in range(rng.randint(1, 4))]
            if rng.random() < 0.2:
                ts.append(rng.choice(ts))          # the same filter twice in one packet
            req = [f"{t}|{rng.choice([0, 1, 2])}" for t in ts]
            if rng.random() < 0.4:
                # a retained message (QoS 1/2) is waiting on one of the topics: the SUBSCRIBE replays it — over the subscription as the
                # hook leaves it (granted QoS, rejection), not as it was requested (seed C14-6)
                pc, _, _ = client()
                qr, pr = rng.choice([1, 2]), pid()
                ops.append(f"pub {pc} {rng.choice(ts)} q={qr} pid={pr} r=1 tag={tag()}"); log(True)
                if qr == 2:
                    ops.append(f"rel {pc} {pr}")
            r = rng.random()
            kv = []
            if r < 0.25:
                kv.append(f"code={rng.choice(SUB_CODES)}" if rng.random() < 0.8 else "plain=1")
            if r < 0.85:
                rej = [t for t in dict.fromkeys(ts) if rng.random() < 0.4]
                if rej:
                    kv.append("rej=" + ",".join(f"{t}:{rng.choice(SUB_CODES)}" for t in rej))
                gr = [t for t in dict.fromkeys(ts) if rng.random() < 0.4]
                if gr:
                    kv.append("grant=" + ",".join(f"{t}:{rng.choice([0, 0, 1, 2])}" for t in gr))
            if kv:
                ops.append(f"hook OnSubscribe {who()} " + " ".join(kv))
            ops.append(f"sub {cn} {pid()} " + " ".join(req)); log(True)
            ops.append("hook OnSubscribe clear")
            if rng.random() < 0.5:
                unsub_block(cn, v, ts)

    def unsub_block(cn, v, ts):
        ts = list(dict.fromkeys(ts))
        rng.shuffle(ts)
        ts = ts[:rng.randint(1, len(ts))]
        r = rng.random()
        kv = []
        if r < 0.25:
            kv.append(f"code={rng.choice(UNSUB_CODES)}")
        if r < 0.8:
            rej = [t for t in ts if rng.random() < 0.4]
            if rej:
                kv.append("rej=" + ",".join(f"{t}:{rng.choice(UNSUB_CODES)}" for t in rej))
        if kv:
            ops.append(f"hook OnUnsubscribe {who()} " + " ".join(kv))
        ops.append(f"unsub {cn} {pid()} " + " ".join(ts)); log(True)
        ops.append("hook OnUnsubscribe clear")

    def publish_block():
        cn, cid, v = client()
        alias = {}
        for _ in range(rng.randint(2, 6)):
            q = rng.choice([0, 1, 2])
            p = pid() if q else 0
            r_ = 1 if rng.random() < 0.6 else 0
            t = topic() if rng.random() < 0.6 or n["t"] == 0 else f"t/{rng.randint(1, n['t'])}"
            tg = tag() if not (r_ and rng.random() < 0.2) else "~"
            line_t, a = t, ""
            if v == 5 and rng.random() < 0.35:
                k = rng.randint(1, 3)
                if k in alias and rng.random() < 0.6:
                    line_t, t = "~", alias[k]
                else:
                    alias[k] = t
                a = f" a={k}"
            r = rng.random()
            kv = None
            if r < 0.25:
                kv = f"code={rng.choice(PUB_CODES)}" if rng.random() < 0.85 else "plain=1"
            elif r < 0.4:
                kv = "drop=1"
            elif r < 0.7:
                parts = []
                if rng.random() < 0.7: parts.append(f"t={topic('z')}")
                if rng.random() < 0.6: parts.append(f"tag={tag() if rng.random() < 0.85 else '~'}")
                if rng.random() < 0.4: parts.append(f"q={rng.choice([0, 1, 2])}")
                if rng.random() < 0.3: parts.append(f"r={rng.choice([0, 1])}")
                if not parts: parts.append(f"tag={tag()}")
                if rng.random() < 0.3: parts.append("inplace=1")
                kv = " ".join(parts)
            if kv:
                ops.append(f"hook OnMsgArrived {who()} {kv}")
            ops.append(f"pub {cn} {line_t} q={q} pid={p} r={r_} tag={tg}{a}"); log(True)
            if kv:
                ops.append("hook OnMsgArrived clear")
            if q == 2 and rng.random() < 0.3:
                # the same packet again (DUP): acknowledged, not routed, the hook is not consulted
                ops.append(f"pub {cn} {line_t if line_t != '~' else t} q=2 pid={p} r={r_} tag={tg} d=1"); log(True)
            elif q == 2 and rng.random() < 0.5:
                ops.append(f"rel {cn} {p}")

    def will_block():
        v = rng.choice([3, 4, 5, 5])
        cn, cid = conn(), f"w{n['conn']}"
        wt, wtag = topic("w"), f"W{n['conn']}"
        delay = rng.choice([0, 0, 0, 1]) if v == 5 else 0
        se = f" se={rng.choice([0, 30])}" if v == 5 else ""
        wret = rng.choice([0, 1, 1])
        ops.append(f"conn {cn} {cid} v={v}{se} will={wt},{rng.choice([0, 1, 2])},{wret},{delay},{wtag}"); log(True)
        r = rng.random()
        kv = None
        if r < 0.3:
            kv = "drop=1"
        elif r < 0.7:
            parts = []
            if rng.random() < 0.7: parts.append(f"t={topic('z')}")
            if rng.random() < 0.7: parts.append(f"tag={tag()}")
            if rng.random() < 0.3: parts.append(f"q={rng.choice([0, 1, 2])}")
            if rng.random() < 0.4: parts.append(f"r={rng.choice([0, 0, 1])}")
            if not parts: parts.append(f"tag={tag()}")
            if rng.random() < 0.25: parts.append("inplace=1")      # edit the message in place instead of replacing it
            kv = " ".join(parts)
        if kv:
            ops.append(f"hook OnWillPublish {who()} {kv}")
        how = rng.random()
        if how < 0.6:
            ops.append(f"close {cn}"); log(True)
        elif how < 0.8:
            # taken over by a second connection of the same client id
            cn2 = conn()
            ops.append(f"conn {cn2} {cid} v={v}"); log(True)
        else:
            ops.append(f"disc {cn}"); log(True)       # normal DISCONNECT: no will
        if delay and how < 0.6:
            ops.append("sleep 1100"); log(True)
        if kv:
            ops.append("hook OnWillPublish clear")

    blocks = [connect_block, enhanced_block, subscribe_block, publish_block, publish_block, will_block]
    first = {"OnReAuth": enhanced_block, "OnEnhancedAuth": enhanced_block, "OnBasicAuth": connect_block, "OnAccept": connect_block,
             "OnSubscribe": subscribe_block, "OnSubscribed": subscribe_block, "OnUnsubscribe": subscribe_block,
             "OnUnsubscribed": subscribe_block, "OnMsgArrived": publish_block, "OnDelivered": publish_block,
             "OnWillPublish": will_block, "OnWillPublished": will_block}
    for k in PRIORITY:
        if k in first:
            first[k]()
    for _ in range(rng.randint(1, 3)):
        rng.choice(blocks)()
    return ops

# ------------------------------------------------------------------------------------------------ canonical form

def split_events(line):
    if line in ("-", "nohooks"):
        return []
    return line.split(" ")

def canon(ops, out):
    """hooklog lines: the order of events of different goroutines is a scheduling matter, and the oracle predicts the
    modelled kinds only"""
    res = []
    for op, line in zip(ops, out):
        if op == "hooklog":
            evs = sorted(e for e in split_events(line) if not e.startswith(UNMODELLED))
            line = " ".join(evs) if evs else "-"
        elif op == "api snapshot":
            # srv.unackStore keeps the entry of a terminated session (removeSessionLocked does not delete it): a leak that
            # no property of C14 speaks about — recorded in findings/c14-unackstore-entry-leak.md, not compared
            line = re.sub(r" unacks=\d+", "", line)
        res.append(line)
    return wire.canon(ops, res)

# ------------------------------------------------------------------------------------------------ predicate

def kvs(tokens):
    return dict(t.split("=", 1) for t in tokens if "=" in t and not t.startswith("="))

def pairs(s):
    res = {}
    for p in (s or "").split(","):
        if ":" in p:
            k, v = p.rsplit(":", 1)
            res[k] = int(v)
    return res

def snap_fields(line):
    return dict(t.split("=", 1) for t in line.split(" ") if "=" in t)

def setof(s):
    return set() if s in ("~", "") else set(s.split("+"))

def expected_seq(order, base):
    return "".join(">" + p for p in order) + ("*" if base else "") + "".join("<" + p for p in reversed(order))

def err_code(kv):
    """the code `converError` gives the verdict's error (None: no error)"""
    if "code" in kv:
        return int(kv["code"])
    if kv.get("plain") == "1":
        return 128
    return None

def predicate(ops, out):
    if len(out) != len(ops) or (out and out[0].startswith("CRASH")):
        return "implementation crashed or hung: " + (out[0] if out else "")
    f0 = ops[0].split()
    cfg = kvs(f0[1:])
    order = [p for p in cfg.get("order", "").split(",") if p and p != "~"]
    base = cfg.get("base", "0") == "1"
    hooked = bool(order) or base
    seq = expected_seq(order, base)
    verdicts = {}          # kind -> (who, kv)
    def verdict(kind):
        w = verdicts.get(kind)
        if not w:
            return {}
        return w[1] if (w[0] in order or (w[0] == "base" and base)) else {}
    ver, cidof = {}, {}
    last_snap = None
    pend = None            # (op, line, conns, fields, verdict snapshot) of the request whose hooklog / snapshot follow
    wills = {}             # cid -> (topic, qos, tag) of the connected client's will
    online = {}            # conn -> cid (accepted connections)
    unack = {}             # conn -> QoS 2 packet ids the broker still remembers (PUBREC sent, no PUBREL yet)
    alias = {}             # conn -> {alias: topic} as bound by the client's PUBLISH packets
    clean = False          # the hook log was read (and cleared) right before the current request: its events are this request's
    snap_fresh = False     # the last snapshot was taken right before the current request
    for i, (op, line) in enumerate(zip(ops, out)):
        f = op.split()
        if "HANG" in line:
            return f"broker did not become quiescent after `{op}`"
        if line == "panic" or line.startswith("panic "):
            return f"`{op}`: {line} (harness or broker panicked)"
        pre, conns = wire.parse_line(line)
        kv = kvs(f[1:])
        if f[0] == "hook":
            if len(f) == 2 and f[1] == "clear":
                verdicts = {}
            elif len(f) == 3 and f[2] == "clear":
                verdicts.pop(f[1], None)
            elif len(f) >= 3:
                verdicts[f[1]] = (f[2], kvs(f[3:]))
            continue
        if f[0] == "hooklog":
            evs = []
            for e in split_events(line):
                m = EV.match(e)
                if not m:
                    return f"`{pend['op'] if pend else op}`: unreadable hook event {e}"
                evs.append(m.groups())
            # ---- every wrapper kind is installed, wrappers nest in plugin_order, each fires exactly once per event
            for kind, detail, s in evs:
                if kind == "OnAuth":
                    want = "*"        # a callback handed out by OnEnhancedAuth, not a wrapped hook kind
                else:
                    want = seq
                if s != want:
                    return (f"`{pend['op'] if pend else op}`: hook {kind}({detail}) ran as `{s}`, expected `{want}` "
                            f"(plugin_order={','.join(order) or '-'}, base hook={int(base)}): every plugin's {kind}Wrapper must be "
                            "installed, nested with the first plugin outermost, and fire exactly once")
            if pend and pend["clean"]:
                why = check_request(pend, evs, order, base, hooked)
                if why:
                    return why
            clean = True
            continue
        if f[0] == "api" and f[1] == "snapshot":
            snap = snap_fields(line)
            if pend and pend["fresh"]:
                why = check_snapshot(pend, last_snap, snap)
                if why:
                    return why
            pend = None
            last_snap = snap
            snap_fresh = True
            continue
        # ---- a request
        if f[0] == "conn":
            ver[f[1]] = int(kv.get("v", 4)); cidof[f[1]] = f[2]
        v = ver.get(f[1], 4) if len(f) > 1 else 4
        pend = dict(op=op, f=f, kv=kv, line=line, pre=pre, conns=conns, v=v, cid=cidof.get(f[1]) if len(f) > 1 else None,
                    verdict={k: verdict(k) for k in ("OnAccept", "OnBasicAuth", "OnEnhancedAuth", "OnReAuth", "OnSubscribe",
                                                     "OnUnsubscribe", "OnMsgArrived", "OnWillPublish")},
                    onauth=(verdicts.get("OnAuth") or (None, {}))[1], hooked=hooked, wills=dict(wills), online=dict(online),
                    dup=(f[0] == "pub" and kv.get("q") == "2" and int(kv.get("pid", 0)) in unack.get(f[1], set())),
                    clean=clean, fresh=snap_fresh)
        clean, snap_fresh = False, False
        if f[0] == "conn":
            alias[f[1]] = {}
        if f[0] == "pub":
            pend["topic"] = f[2]
            if "a" in kv and v == 5:
                if f[2] == "~":
                    pend["topic"] = alias.get(f[1], {}).get(kv["a"])
                else:
                    alias.setdefault(f[1], {})[kv["a"]] = f[2]
        why = check_wire(pend)
        if why:
            return why
        # bookkeeping of connections, wills and inbound QoS 2 ids
        if f[0] == "pub" and kv.get("q") == "2":
            h = conns.get(f[1], ([], []))[0]
            rec = next((x for x in h if x.startswith("pubrec(")), None)
            if rec and int(rec[:-1].split(",")[1]) < 128:
                unack.setdefault(f[1], set()).add(int(kv.get("pid", 0)))
        if f[0] == "rel":
            unack.get(f[1], set()).discard(int(f[2]))
        if f[0] == "conn":
            h = conns.get(f[1], ([], []))[0]
            if any(x.startswith("connack(sp=") and ",code=0" in x for x in h):
                for c, cid in list(online.items()):
                    if cid == f[2]:
                        online.pop(c)
                online[f[1]] = f[2]
                if "will" in kv:
                    w = kv["will"].split(",")
                    wills[f[2]] = (w[0], int(w[1]), w[4])
                else:
                    wills.pop(f[2], None)
        elif f[0] == "auth":
            h = conns.get(f[1], ([], []))[0]
            if any(x.startswith("connack(sp=") and ",code=0" in x for x in h):
                online[f[1]] = cidof.get(f[1])
        if f[0] in ("close", "disc") or any("closed" in conns.get(c, ([], []))[0] for c in conns):
            for c in list(online):
                if c == (f[1] if len(f) > 1 else None) and f[0] in ("close", "disc"):
                    wills.pop(online[c], None); online.pop(c)
                elif "closed" in conns.get(c, ([], []))[0]:
                    wills.pop(online[c], None); online.pop(c)
    return None


def count(evs, kind, pred=None):
    return sum(1 for k, d, s in evs if k == kind and (pred is None or pred(d)))

def delivered(conns):
    res = []
    for name, (h, p) in conns.items():
        for x in p:
            pf = wire.pub_fields(x)
            if pf:
                res.append((name, pf))
    return res

def check_wire(P):
    """what the client sees on the wire, against the verdict in force"""
    f, kv, conns, v = P["f"], P["kv"], P["conns"], P["v"]
    V = P["verdict"]
    op = P["op"]
    if f[0] == "conn":
        h = conns.get(f[1], ([], []))[0]
        if V["OnAccept"].get("accept") == "0":
            if "closed" not in h:
                return f"`{op}`: OnAccept returned false but the connection was not closed ({P['line']})"
            return None
        enhanced = v == 5 and "am" in kv
        a = V["OnEnhancedAuth"] if enhanced else V["OnBasicAuth"]
        code = err_code(a)
        if code is None and enhanced and a.get("nilresp") == "1":
            code = 128
        if enhanced and not P["hooked"]:
            code = 128
        ca = next((x for x in h if x.startswith("connack(")), None)
        if code is not None:
            want = code if v == 5 else (code if code <= 5 else 135)
            if ca is None:
                return f"`{op}`: the authentication hook rejected the CONNECT with code {code} but no CONNACK was sent ({P['line']})"
            m = re.match(r"connack\(sp=(\d),code=(\d+)", ca)
            if int(m.group(2)) == 0 or int(m.group(2)) != want or m.group(1) != "0":
                return f"`{op}`: the authentication hook rejected the CONNECT with code {code}: expected a failing CONNACK code {want}, got {ca}"
        elif enhanced and a.get("continue") == "1":
            if "auth(24)" not in h or ca is not None:
                return f"`{op}`: OnEnhancedAuth asked to continue: expected AUTH(0x18) and no CONNACK, got {h}"
        else:
            if ca is None or ",code=0" not in ca:
                return f"`{op}`: CONNECT accepted by the hooks but the CONNACK is {ca}"
    elif f[0] == "auth":
        h = conns.get(f[1], ([], []))[0]
        if f[1] in P["online"]:
            a = V["OnReAuth"]
            code = err_code(a)
            if not P["hooked"]:
                code = 130
            if code is not None:
                if "closed" not in h or (f"disconnect({code})" not in h):
                    return f"`{op}`: OnReAuth refused the re-authentication with code {code}: expected DISCONNECT({code}) and close, got {h}"
            elif a.get("continue") == "1":
                if h != ["auth(24)"]:
                    return f"`{op}`: OnReAuth asked to continue: expected AUTH(0x18), got {h}"
            elif h != ["auth(0)"]:
                return f"`{op}`: OnReAuth accepted: expected AUTH(0x00), got {h}"
        else:
            a = P["onauth"]
            code = err_code(a)
            if code is None and a.get("nilresp") == "1":
                code = 128
            ca = next((x for x in h if x.startswith("connack(")), None)
            if code is not None:
                if ca is None or f"code={code}" not in ca or ",code=0" in ca:
                    return f"`{op}`: OnAuth rejected the exchange with code {code}: expected a failing CONNACK, got {h}"
            elif a.get("continue") == "1":
                if "auth(24)" not in h or ca is not None:
                    return f"`{op}`: OnAuth asked to continue: expected AUTH(0x18), got {h}"
            elif ca is None or ",code=0" not in ca:
                return f"`{op}`: OnAuth accepted: expected a successful CONNACK, got {h}"
    elif f[0] == "sub":
        h = conns.get(f[1], ([], []))[0]
        sa = next((x for x in h if x.startswith("suback(")), None)
        if sa is None:
            return f"`{op}`: no SUBACK ({P['line']})"
        codes = [int(c) for c in sa[sa.index(",") + 1:-1].split("+") if c != ""]
        topics = [t.split("|") for t in f[3:]]
        a = V["OnSubscribe"]
        code = err_code(a)
        rej, grant = pairs(a.get("rej")), pairs(a.get("grant"))
        # the request object is a map by topic name: the LAST entry of a name supplies the options
        lastq = {t[0]: int(t[1]) for t in topics}
        want = []
        for t in topics:
            if code is not None:
                want.append(code if v == 5 else 128)
            elif t[0] in rej:
                want.append(rej[t[0]] if v == 5 else 128)
            else:
                want.append(grant.get(t[0], lastq[t[0]]))
        if codes != want:
            return (f"`{op}`: SUBACK codes {codes}, expected {want} (OnSubscribe error={code}, per-topic rejections={rej}, "
                    f"granted QoS={grant}, protocol v{v})")
        P["suback"] = codes
        # retained messages replayed by this SUBSCRIBE travel over the subscription as the hook left it: never above the QoS the
        # SUBACK reports for their topic, and not at all for a filter that was refused (filters here are plain topic names)
        final = {}
        for t, c in zip(topics, codes):
            final[t[0]] = c
        for x in conns.get(f[1], ([], []))[1]:
            pf = wire.pub_fields(x)
            if pf is None or pf["t"] not in final:
                continue
            c = final[pf["t"]]
            if c >= 128:
                return f"`{op}`: a retained message on {pf['t']} was sent although the SUBSCRIBE was refused for that filter (code {c})"
            if pf["q"] > c:
                return (f"`{op}`: a retained message on {pf['t']} was sent with QoS {pf['q']} over a subscription the SUBACK reports as QoS {c} "
                        f"(requested {lastq[pf['t']]}, OnSubscribe granted {grant.get(pf['t'])})")
    elif f[0] == "unsub":
        h = conns.get(f[1], ([], []))[0]
        ua = next((x for x in h if x.startswith("unsuback(")), None)
        if ua is None:
            return f"`{op}`: no UNSUBACK ({P['line']})"
        codes = [int(c) for c in ua[ua.index(",") + 1:-1].split("+") if c != ""]
        a = V["OnUnsubscribe"]
        code = err_code(a)
        rej = pairs(a.get("rej"))
        want = [] if v != 5 else [code if code is not None else rej.get(t, 0) for t in f[3:]]
        if codes != want:
            return f"`{op}`: UNSUBACK codes {codes}, expected {want} (OnUnsubscribe error={code}, per-topic rejections={rej})"
    elif f[0] == "pub":
        h = conns.get(f[1], ([], []))[0]
        q = int(kv.get("q", 0))
        dup = P["dup"]
        a = {} if dup else V["OnMsgArrived"]
        code = err_code(a)
        got = delivered(conns)
        tagv = kv.get("tag", "~")
        ack = next((x for x in h if x.startswith("puback(") or x.startswith("pubrec(")), None)
        if q and ack is None:
            return f"`{op}`: QoS {q} PUBLISH got no acknowledgement ({P['line']})"
        ackcode = int(ack[:-1].split(",")[1]) if ack else None
        if code is not None or a.get("drop") == "1" or dup:
            what = f"rejected by OnMsgArrived (code {code})" if code is not None else ("dropped by OnMsgArrived" if not dup else "a duplicate")
            if got:
                return f"`{op}`: the PUBLISH was {what} but was delivered: {got}"
            if q:
                want = (code if code is not None else 16) if v == 5 else 0
                if ackcode != want:
                    return f"`{op}`: the PUBLISH was {what}: expected acknowledgement code {want}, got {ack}"
        else:
            nt, ntag = a.get("t"), a.get("tag")
            nq = int(a["q"]) if "q" in a else q
            for name, pf in got:
                if ntag is not None and pf["tag"] != ntag:
                    return f"`{op}`: OnMsgArrived rewrote the payload to {ntag} but {name} received {pf['tag']}"
                if ntag is None and pf["tag"] != tagv:
                    return f"`{op}`: {name} received payload {pf['tag']}, published {tagv}"
                if nt is not None and pf["t"] not in (nt, "~"):
                    return f"`{op}`: OnMsgArrived rewrote the topic to {nt} but {name} received topic {pf['t']}"
                if nt is None and P.get("topic") and pf["t"] not in (P["topic"], "~"):
                    return f"`{op}`: published on {P['topic']} but {name} received topic {pf['t']}"
                if pf["q"] != min(nq, 2):
                    return f"`{op}`: {name} received QoS {pf['q']}, the message as the hook left it has QoS {nq}"
            # the observer `s` subscribes to # with QoS 2: it must see every message the hooks let through
            if not any(name == "s" for name, _ in got):
                return f"`{op}`: the PUBLISH passed OnMsgArrived but the observer subscribed to # received nothing ({P['line']})"
            if q and v == 5 and ackcode != 0:
                return f"`{op}`: the PUBLISH passed OnMsgArrived and has a subscriber: expected acknowledgement code 0, got {ack}"
    return None


def check_request(P, evs, order, base, hooked):
    """the events of one request: each hook fires exactly once per event"""
    f, kv, conns, v, op = P["f"], P["kv"], P["conns"], P["v"], P["op"]
    V = P["verdict"]
    if not hooked:
        return None
    def want(kind, n, pred=None, what=""):
        c = count(evs, kind, pred)
        if c != n:
            return f"`{op}`: {kind} fired {c} time(s), expected {n}{what} (events: {' '.join(k + '(' + d + ')' for k, d, s in evs)})"
        return None
    if f[0] == "conn":
        h = conns.get(f[1], ([], []))[0]
        why = want("OnAccept", 1)
        if why: return why
        if V["OnAccept"].get("accept") == "0":
            for k in ("OnBasicAuth", "OnEnhancedAuth", "OnConnected", "OnSessionCreated", "OnSessionResumed"):
                why = want(k, 0, None, " for a connection OnAccept refused")
                if why: return why
            return None
        enhanced = v == 5 and "am" in kv
        why = want("OnEnhancedAuth" if enhanced else "OnBasicAuth", 1, lambda d: d == f[2]) or \
            want("OnBasicAuth" if enhanced else "OnEnhancedAuth", 0)
        if why: return why
        ca = next((x for x in h if x.startswith("connack(")), None)
        ok = ca is not None and ",code=0" in ca
        why = want("OnConnected", 1 if ok else 0, lambda d: d == f[2], " (CONNACK " + str(ca) + ")")
        if why: return why
        sp = ok and ca.startswith("connack(sp=1")
        why = want("OnSessionCreated", 1 if ok and not sp else 0, lambda d: d == f[2]) or \
            want("OnSessionResumed", 1 if ok and sp else 0, lambda d: d == f[2])
        if why: return why
    elif f[0] == "auth":
        if f[1] in P["online"]:
            why = want("OnReAuth", 1, lambda d: d.startswith(P["online"][f[1]] + ","))
            if why: return why
        else:
            h = conns.get(f[1], ([], []))[0]
            ok = any(x.startswith("connack(sp=") and ",code=0" in x for x in h)
            why = want("OnAuth", 1) or want("OnConnected", 1 if ok else 0)
            if why: return why
    elif f[0] == "sub":
        codes = P.get("suback", [])
        why = want("OnSubscribe", 1)
        if why: return why
        topics = [t.split("|")[0] for t in f[3:]]
        good = [(t, c) for t, c in zip(topics, codes) if c < 128]
        why = want("OnSubscribed", len(good), None, f" (SUBACK {codes})")
        if why: return why
        for t, c in good:
            if count(evs, "OnSubscribed", lambda d: d == f"{P['cid']},{t}/q{c}") < 1:
                return f"`{op}`: no OnSubscribed event for {t} with the granted QoS {c}"
    elif f[0] == "unsub":
        why = want("OnUnsubscribe", 1)
        if why: return why
        a = V["OnUnsubscribe"]
        rej = pairs(a.get("rej"))
        n = 0 if err_code(a) is not None else sum(1 for t in f[3:] if t not in rej)
        why = want("OnUnsubscribed", n)
        if why: return why
    elif f[0] == "pub":
        dup = P["dup"]
        why = want("OnMsgArrived", 0 if dup else 1, None, " for a duplicate QoS 2 PUBLISH" if dup else "")
        if why: return why
        why = want("OnDelivered", len(delivered(conns)), None, " (one per PUBLISH packet written)")
        if why: return why
    if f[0] == "close" and f[1] in P["online"]:
        why = want("OnClosed", 1, lambda d: d == P["online"][f[1]])
        if why: return why
    return None


def check_snapshot(P, before, after):
    """the broker state after the request, against the state before it"""
    f, kv, conns, v, op = P["f"], P["kv"], P["conns"], P["v"], P["op"]
    V = P["verdict"]
    if before is None:
        return None
    def unchanged(keys, why):
        for k in keys:
            if before.get(k) != after.get(k):
                return f"`{op}`: {why}, but {k} changed from {before.get(k)} to {after.get(k)}"
        return None
    ALL = ("sess", "subs", "ret", "online", "offline", "wills", "queues", "unacks")
    if f[0] == "conn":
        if V["OnAccept"].get("accept") == "0":
            return unchanged(ALL, "OnAccept refused the connection")
        enhanced = v == 5 and "am" in kv
        a = V["OnEnhancedAuth"] if enhanced else V["OnBasicAuth"]
        if err_code(a) is not None or (enhanced and (a.get("nilresp") == "1" or not P["hooked"])):
            return unchanged(ALL, "the CONNECT was rejected by the authentication hook (no session, subscription, will or retained state may be left behind)")
        if enhanced and a.get("continue") == "1":
            return unchanged(ALL, "the enhanced authentication has not finished")
    elif f[0] == "auth" and f[1] not in P["online"]:
        a = P["onauth"]
        if err_code(a) is not None or a.get("nilresp") == "1" or a.get("continue") == "1":
            return unchanged(ALL, "the enhanced authentication was refused / has not finished")
    elif f[0] == "sub":
        a = V["OnSubscribe"]
        codes = P.get("suback", [])
        topics = [t.split("|")[0] for t in f[3:]]
        cid = P["cid"]
        if err_code(a) is not None:
            return unchanged(ALL, "OnSubscribe returned an error")
        subs = setof(after.get("subs", "~"))
        was = setof(before.get("subs", "~"))
        final = {}
        for t, c in zip(topics, codes):
            final[t] = c       # per name the codes are equal (map semantics), the last one stands
        for t, c in final.items():
            mine = {x for x in subs if x.startswith(f"{cid}:{t}:")}
            if c < 128:
                if mine != {f"{cid}:{t}:{c}"}:
                    return f"`{op}`: SUBACK granted QoS {c} for {t} but the subscription store holds {sorted(mine) or 'nothing'}"
            else:
                old = {x for x in was if x.startswith(f"{cid}:{t}:")}
                if mine != old:
                    return f"`{op}`: the subscription to {t} was rejected (code {c}) but the store changed from {sorted(old)} to {sorted(mine)}"
        other = {x for x in subs if not any(x.startswith(f"{cid}:{t}:") for t in final)}
        if other != {x for x in was if not any(x.startswith(f"{cid}:{t}:") for t in final)}:
            return f"`{op}`: subscriptions outside the request changed: {sorted(was)} -> {sorted(subs)}"
        return unchanged(("sess", "ret", "online", "wills"), "a SUBSCRIBE")
    elif f[0] == "unsub":
        a = V["OnUnsubscribe"]
        cid = P["cid"]
        if err_code(a) is not None:
            return unchanged(ALL, "OnUnsubscribe returned an error")
        rej = pairs(a.get("rej"))
        subs, was = setof(after.get("subs", "~")), setof(before.get("subs", "~"))
        for t in f[3:]:
            mine = {x for x in subs if x.startswith(f"{cid}:{t}:")}
            old = {x for x in was if x.startswith(f"{cid}:{t}:")}
            if t in rej:
                if mine != old:
                    return f"`{op}`: the unsubscription of {t} was rejected but the store changed from {sorted(old)} to {sorted(mine)}"
            elif mine:
                return f"`{op}`: {t} was unsubscribed but the store still holds {sorted(mine)}"
    elif f[0] == "pub":
        dup = P["dup"]
        a = {} if dup else V["OnMsgArrived"]
        code = err_code(a)
        tagv = kv.get("tag", "~")
        retain = kv.get("r") == "1"
        ret, was = setof(after.get("ret", "~")), setof(before.get("ret", "~"))
        if code is not None or a.get("drop") == "1" or dup:
            what = "rejected" if code is not None else ("dropped" if not dup else "a duplicate")
            return unchanged(("ret", "subs", "sess", "wills", "online"), f"the PUBLISH was {what}")
        # accepted, possibly rewritten: the retained store sees the message as the hook left it
        nt = a.get("t")
        ntag = a.get("tag", tagv)
        nq = int(a["q"]) if "q" in a else int(kv.get("q", 0))
        nret = (a["r"] == "1") if "r" in a else retain
        t_eff = P.get("topic")      # the topic name, resolved from the alias binding when the packet carries none
        t_fin = nt if nt is not None else t_eff
        if not nret:
            return unchanged(("ret",), "the message as the hook left it has no RETAIN flag")
        if ntag == "~":
            # a retained message with an empty payload clears the topic
            if t_fin is not None and any(x.startswith(t_fin + ":") for x in ret):
                return f"`{op}`: empty retained payload for {t_fin} but the retained store still holds {sorted(x for x in ret if x.startswith(t_fin + ':'))}"
            if ret - was:
                return f"`{op}`: a clearing PUBLISH added retained messages {sorted(ret - was)}"
            if t_fin is not None and {x for x in was if not x.startswith(t_fin + ":")} != ret:
                return f"`{op}`: a clearing PUBLISH for {t_fin} changed other retained messages: {sorted(was)} -> {sorted(ret)}"
            return None
        entry_ok = [x for x in ret if x.endswith(f":{nq}:{ntag}") and (t_fin is None or x == f"{t_fin}:{nq}:{ntag}")]
        if not entry_ok:
            return (f"`{op}`: the retained store must hold the message as the hook left it "
                    f"({t_fin or '<alias topic>'}, QoS {nq}, payload {ntag}) but holds {sorted(ret) or 'nothing'}")
        if ntag != tagv and any(x.endswith(":" + tagv) for x in ret - was):
            return f"`{op}`: OnMsgArrived rewrote the payload to {ntag} but the retained store took the original {tagv}: {sorted(ret - was)}"
        if nt is not None and t_eff is not None and t_eff != nt and any(x.startswith(t_eff + ":") for x in ret - was):
            return f"`{op}`: OnMsgArrived rewrote the topic to {nt} but the retained store took the original topic {t_eff}: {sorted(ret - was)}"
        if t_fin is not None:
            rest = lambda xs: {x for x in xs if not x.startswith(t_fin + ":")}
            if rest(ret) != rest(was):
                return f"`{op}`: retained messages of other topics changed: {sorted(rest(was))} -> {sorted(rest(ret))}"
    return None


def check_will(ops, out):
    """will verdicts: what the observer `s` (subscribed to #) receives when a client with a will goes away"""
    verdicts, wills, online, ver = {}, {}, {}, {}
    order = [p for p in kvs(ops[0].split()[1:]).get("order", "").split(",") if p and p != "~"]
    base = kvs(ops[0].split()[1:]).get("base", "0") == "1"
    pending = {}     # cid -> will awaiting its delay
    clean = False
    snap, fresh = None, False      # the last snapshot, and whether it was taken right before the current request
    for i, (op, line) in enumerate(zip(ops, out)):
        f = op.split()
        was_clean = clean
        was_fresh = fresh
        if f[0] == "api" and f[1] == "snapshot":
            snap, fresh = snap_fields(line), True
        elif f[0] not in ("hook", "hooklog", "api"):
            fresh = False
        if f[0] == "hooklog":
            clean = True
        elif f[0] not in ("hook", "api"):
            clean = False
        kv = kvs(f[1:])
        pre, conns = wire.parse_line(line)
        if f[0] == "hook":
            if len(f) == 2: verdicts = {}
            elif f[2] == "clear": verdicts.pop(f[1], None)
            else: verdicts[f[1]] = (f[2], kvs(f[3:]))
            continue
        w = verdicts.get("OnWillPublish")
        a = w[1] if w and (w[0] in order or (w[0] == "base" and base)) else {}
        fired = []
        if f[0] == "conn":
            h = conns.get(f[1], ([], []))[0]
            okc = any(x.startswith("connack(sp=") and ",code=0" in x for x in h)
            if okc:
                for c, cid in list(online.items()):
                    if cid == f[2]:
                        if cid in wills: fired.append(wills[cid])
                        online.pop(c)
                if f[2] in pending:
                    # a new connection of the client: a delayed will is sent only if the old session ended
                    sp = any(x.startswith("connack(sp=1") for x in h)
                    wl = pending.pop(f[2])
                    if not sp: fired.append(wl)
                online[f[1]] = f[2]; ver[f[1]] = int(kv.get("v", 4))
                if "will" in kv:
                    x = kv["will"].split(",")
                    wills[f[2]] = dict(t=x[0], q=int(x[1]), retain=x[2] == "1", delay=int(x[3]) if ver[f[1]] == 5 else 0, tag=x[4],
                                       se=int(kv.get("se", 0)) if ver[f[1]] == 5 else 0)
                else:
                    wills.pop(f[2], None)
        elif f[0] == "close" and f[1] in online:
            cid = online.pop(f[1])
            wl = wills.pop(cid, None)
            if wl:
                d = min(wl["delay"], wl["se"]) if ver.get(f[1]) == 5 else 0
                if d != 0: pending[cid] = wl
                else: fired.append(wl)
        elif f[0] == "disc" and f[1] in online:
            cid = online.pop(f[1]); wills.pop(cid, None)
        elif f[0] == "sleep":
            fired.extend(pending.values()); pending = {}
        else:
            for c in list(online):
                if "closed" in conns.get(c, ([], []))[0]:
                    cid = online.pop(c)
                    wl = wills.pop(cid, None)
                    if wl: fired.append(wl)
        if f[0] in ("hooklog", "api"):
            continue
        got = [pf for name, pf in delivered(conns) if name == "s"]
        if (order or base) and was_clean and i + 1 < len(ops) and ops[i + 1] == "hooklog":
            evs = [EV.match(e) for e in split_events(out[i + 1])]
            n1 = sum(1 for m in evs if m and m.group(1) == "OnWillPublish")
            n2 = sum(1 for m in evs if m and m.group(1) == "OnWillPublished")
            w2 = 0 if a.get("drop") == "1" else len(fired)
            if n1 != len(fired) or n2 != w2:
                return (f"`{op}`: {len(fired)} will message(s) are due ({[w['tag'] for w in fired]}): OnWillPublish fired {n1} time(s), "
                        f"OnWillPublished {n2} time(s), expected {len(fired)} and {w2}")
        # the retained store after the wills of this request: what OnWillPublish left, nothing else
        nxt = next((j for j in (i + 1, i + 2) if j < len(ops) and ops[j] == "api snapshot"), None)
        if fired and was_fresh and snap is not None and nxt is not None:
            before, after = setof(snap.get("ret", "~")), setof(snap_fields(out[nxt]).get("ret", "~"))
            expect = set(before)
            for wl in fired:
                ntag = a.get("tag", wl["tag"]); nt = a.get("t", wl["t"]); nq = int(a.get("q", wl["q"]))
                nret = (a["r"] == "1") if "r" in a else wl["retain"]
                if a.get("drop") == "1" or not nret:
                    continue
                expect = {x for x in expect if not x.startswith(nt + ":")}
                if ntag != "~":
                    expect.add(f"{nt}:{nq}:{ntag}")
            if after != expect:
                return (f"`{op}`: will(s) {[w['tag'] for w in fired]} due with OnWillPublish verdict {a or 'keep'}: the retained store must be "
                        f"{sorted(expect) or 'empty'} (the message as the hook left it, RETAIN included) but is {sorted(after) or 'empty'}")
        for wl in fired:
            ntag = a.get("tag", wl["tag"]); nt = a.get("t", wl["t"]); nq = int(a.get("q", wl["q"]))
            mine = [pf for pf in got if pf["tag"] in (wl["tag"], ntag)]
            if a.get("drop") == "1":
                if mine:
                    return f"`{op}`: OnWillPublish dropped the will {wl['tag']} but it was published: {mine}"
                continue
            if not mine:
                return f"`{op}`: the will {wl['tag']} of the closed connection was not published (expected payload {ntag} on {nt})"
            for pf in mine:
                if pf["tag"] != ntag or pf["t"] not in (nt, "~") or pf["q"] != nq:
                    return (f"`{op}`: the will must be published as OnWillPublish left it (topic {nt}, QoS {nq}, payload {ntag}) "
                            f"but the observer received topic {pf['t']}, QoS {pf['q']}, payload {pf['tag']}")
    return None


def full_predicate(ops, out):
    return predicate(ops, out) or check_will(ops, out)


def nontrivial(ops, out):
    """at least one plugin, a verdict other than accept imposed on some request, and a hook log that shows wrapped events"""
    return any(o.startswith("hook ") and not o.endswith("clear") for o in ops) and any(">" in l for l in out)

# ------------------------------------------------------------------------------------------------ known findings

# recognisers take effect only for entries of known-findings.txt that name them (the lead decides fix vs record)
RECOGNISERS = {
    # findings/c14-failing-connack-lost-in-close-race.md: the failing CONNACK is discarded when writeLoop loses the select race
    "c14_connack_lost": lambda info: "but no CONNACK was sent" in (info.get("why") or ""),
}

# ------------------------------------------------------------------------------------------------ streams / run

class HookStream(core.Stream):
    """implementation side = drive_broker (with hooks.go); model side = oracle_brokerhooks"""
    _built = False
    def impl(self, cases):
        if not HookStream._built and not os.path.exists(core.drive_exe("broker")):
            core.build_go(lambda m: None, ["broker"])
        HookStream._built = True
        return core.run_parallel([core.drive_exe("broker")] + self.drive_args, cases, timeout=self.timeout)


# ---- sessions restored from persistence (the broker boots on a non-empty store): their queues' OnMsgDropped notifier is built
# during start-up, it must already be the hook the plugins have wrapped (seed C14-3)

def gen_restore(rng):
    ops = [f"new maxq={rng.choice([1, 2, 3, 5])} plugins={rng.choice([1, 2, 3])} restore={rng.choice([1, 1, 2, 3])} base={rng.choice([0, 1])}"]
    for _ in range(rng.randint(1, 5)):
        ops.append(f"pub {rng.choice([1, 2, 3, 6])} {rng.choice([0, 1, 1, 2])}")
    return ops

def pred_restore(ops, out):
    if len(out) != len(ops) or (out and out[0].startswith("CRASH")):
        return "implementation crashed or hung: " + (out[0] if out else "")
    kv = dict(x.split("=", 1) for x in ops[0].split()[1:])
    maxq, k, r, base = int(kv["maxq"]), int(kv["plugins"]), int(kv["restore"]), kv.get("base") == "1"
    offered = 0
    for op, o in zip(ops[1:], out[1:]):
        m = re.match(r"dropped=(\d+) wrappers=([\d,]*) base=(\d+)$", o)
        if not m:
            return f"`{op}` -> `{o}`"
        n = int(op.split()[1])
        want = r * (max(0, offered + n - maxq) - max(0, offered - maxq))
        offered += n
        d, ws, b = int(m.group(1)), [int(x) for x in m.group(2).split(",") if x], int(m.group(3))
        if d != want:
            return f"`{op}`: the broker counts {d} dropped messages, the {r} restored queues of capacity {maxq} must drop {want}"
        if len(ws) != k or any(w != d for w in ws):
            return (f"`{op}`: {d} messages were dropped from the queues of sessions restored at start-up, the OnMsgDropped wrappers of the "
                    f"{k} plugins were called {ws} times (each must fire exactly once per event)")
        if b != (d if base else 0):
            return f"`{op}`: {d} drops, base OnMsgDropped hook called {b} times"
    return None

def streams(tier):
    n = 200 if tier == "quick" else 3000
    nr = 60 if tier == "quick" else 600
    return [(HookStream("broker-hooks", "brokerhooks", gen, full_predicate, nontrivial, canon=canon, keep_prefix=3), n),
            (core.Stream("hook-restore", "hookrestore", gen_restore, pred_restore,
                         lambda ops, out: any("dropped=" in o and not o.startswith("dropped=0 ") for o in out), keep_prefix=1), nr)]


def seed_from_facts(r):
    """a failing generated-facts theorem: ask the oracle which entries break it and exercise those kinds first"""
    rc, out = core.sh([core.oracle_exe("brokerhooks")], inp="facts\n", timeout=60)
    r.log("generated facts: " + out.strip())
    kinds = []
    for tok in out.strip().split(" "):
        if "=" in tok:
            for k in tok.split("=", 1)[1].split("+"):
                if k != "~" and k.endswith("Wrapper"):
                    kinds.append(k[:-len("Wrapper")])
    PRIORITY[:] = sorted(set(kinds))
    return out.strip()


def run(r):
    mod = sys.modules[__name__]
    r.recognisers.update(RECOGNISERS)
    rc, out = core.build_go(r.log, ["extract"])
    if rc == 0:
        rc, out = core.extract_facts(r.log, NEEDS_FACTS)
    if rc != 0:
        r.violation("extract", "# fact extractor failed on /repo: the regenerated tie no longer checks\n" + out[-3000:], False,
                    "extractor failed")
    ok = r.prove(MODULE, THEOREMS, comps=COMPS)
    if not ok:
        # the oracle does not depend on the property module: build it on its own, then let the facts seed the search
        core.build_lean(["oracle_brokerhooks"], r.log)
        facts = seed_from_facts(r)
        r.notes.append("generated-facts obligations broken: " + facts)
    rc, out = core.build_go(r.log, ["broker", "hookrestore"])
    if rc != 0:
        r.violation("go-build", "# harness does not build against /repo any more\n" + out[-3000:], False, "go build failed")
        return r.finish(rule=RULE, assumptions=ASSUME)
    for s, n in streams(r.tier):
        r.correspond(s, n)
    return r.finish(rule=RULE, assumptions=ASSUME)


RULE = ("stream hook-restore: a broker booted on a store that already holds 1-3 sessions (custom persistence factory), 1-3 plugins with an "
        "OnMsgDropped wrapper, messages published through the Publisher API overflow the restored queues; wrapper / base hook call counts "
        "against the C10 queue model and the predicate's own arithmetic. "
        "wire scenarios on a real in-process broker with 1-3 recording plugins in every order of plugin_order (+/- recording base hooks): "
        "every plugin exposes EVERY wrapper kind (HookWrapper built by reflection), logs pre/post around the next hook and imposes scripted "
        "verdicts: OnAccept false; OnBasicAuth / OnEnhancedAuth / OnAuth / OnReAuth reject with a reason code, plain error, nil response, "
        "continue; OnSubscribe hook error, per-topic rejection, granted QoS; OnUnsubscribe hook error, per-topic rejection; OnMsgArrived "
        "reject / plain error / drop / rewrite topic, payload, QoS, RETAIN (replacing or editing the message); OnWillPublish drop / rewrite. "
        "Requests: CONNECT v3.1/v3.1.1/v5 (with and without will), enhanced authentication and re-authentication, SUBSCRIBE with 1-5 topics "
        "(duplicates), UNSUBSCRIBE, PUBLISH QoS 0-2 retained or not, with and without topic alias, empty payload, duplicates, connection "
        "close / take-over / DISCONNECT with a will. After every request the hook log (nesting, exactly-once) and a state snapshot "
        "(sessions, subscriptions, retained messages, pending wills, table sizes) are read. non-trivial = some verdict other than accept "
        "was imposed and wrapped events were logged")
ASSUME = ["wrappers never short-circuit (they always call the next hook once); a plugin that does is outside the model",
          "reason codes a hook puts into a per-topic SUBSCRIBE rejection are >= 0x80",
          "the fact extractor reads initPluginHooks by shape; any other shape makes it fail (reported as a broken tie), it never guesses",
          "hook events of different goroutines are compared as a multiset per request; OnDelivered / OnMsgDropped / OnStop are checked by "
          "the predicate only (nesting, count), not predicted by the oracle"]
