"""C15 — concurrent use: lifecycle of a connection's goroutines, Stop, lock order (PARTIAL: no data-race claim).

Wire tie: lifecycle scripts run on the real in-process broker (harness/cmd/drive_broker + lifecycle.go) and on the
Lean model (lean/Driver/Lifecycle.lean over GmqttVerif.Model.Lifecycle). After every op the broker is brought to
exact quiescence; the observable lifecycle facts are: which connections the broker closed, how many clients are
registered (`counts`), the goroutine census by kind (`census`), what `Stop` did (`lstop`: returned?, Unload / OnStop
counts, census before the scripted peers let go of their sockets)."""
import os, re, subprocess
from .. import core, wire

os.environ.setdefault("VERIF_HANG_DETAIL", "1")      # HANG tokens then name the goroutines (state @ function)
PROP = "C15"
MODULE = "GmqttVerif.Properties.C15LockOrder"       # imports GmqttVerif.Properties.C15; builds only if the lock order is acyclic
BASE_MODULE = "GmqttVerif.Properties.C15"
L = "GmqttVerif.Lifecycle."
THEOREMS = [L + t for t in (
    "lifecycle_no_stuck_state", "lifecycle_terminates", "rank_decreases_always", "closing_closes_socket",
    "closed_after_unregister", "closed_after_goroutines_exit", "channels_closed_once", "channels_closed_by_owner",
    "stop_terminates", "workers_only_when_registered", "lock_order_acyclic_modulo_feedback",
    "f37_as_is_stuck", "no_stuck_statement_fails_as_is", "f38_failed_connect_as_is_stuck", "f38_stop_as_is_leaves_connection",
    "serve_joins_all_goroutines", "conn_tracked_until_closed", "channel_close_sites", "f37_stop_as_is_stuck", "f47_once_deadlock_as_is_stuck", "f48_auth_send_as_is_stuck", "f49_as_is_poll_without_queue",
    "lock_feedback_empty", "lock_order_acyclic")]
COMPS = ["broker"]          # Go side; the Lean side is oracle_lifecycle (LifecycleStream.model)
NEEDS_FACTS = ["Locks", "Serve"]
QT = 20000       # only a wedged broker (or a hopelessly overloaded machine) ever waits this long

# ---------------------------------------------------------------- generator

def _data(rng):
    return rng.choice(["PING", "PING", "PUB0:lc/x", "PUB1:7:lc/x", "SUB:3:lc/y"])

def _burst(rng, fatal, after):
    before = [_data(rng) for _ in range(rng.choice([0, 0, 1, 2, 5]))]
    return before + ([fatal] if fatal else []) + [_data(rng) for _ in range(after)]

def _after(rng):
    # the interesting boundary is the capacity of client.in (8): 8 packets still fit, the 9th does not
    return rng.choice([0, 1, 7, 8, 9, 9, 10, 12, 12])

def gen(rng):
    kind = rng.choice(["disc", "disc", "err", "err", "boundary", "failconn", "failconn", "takeover", "stop", "stop",
                       "stalled", "preclose", "auth", "hold", "hold", "holdclose", "fault"] + (["timeout"] if rng.random() < 0.12 else []))
    zl = 0
    ops = [f"new qt={QT} lc=1 ret=0 zl={zl}" + (" pe=faulty" if kind == "fault" else "")]
    v = rng.choice([4, 4, 5, 5, 3])
    tail = True
    if kind in ("disc", "err"):
        ops.append(f"conn a ca v={v}")
        if rng.random() < 0.3:
            ops.append("burst a SUB:1:lc/x")
        fatal = "DISC" if kind == "disc" else rng.choice(["ERR", "ERR", "MAL"])
        ops.append("burst a " + " ".join(_burst(rng, fatal, _after(rng))))
        ops += ["census", "counts"]
        if rng.random() < 0.7:
            ops += ["lclose a", "census", "counts"]
        if rng.random() < 0.6:
            ops += [f"conn b ca v={rng.choice([4, 5])}", "counts", "census"]
    elif kind == "boundary":
        # the peer goes away at a packet boundary, with the packets before it still in flight
        ops.append(f"conn a ca v={v}")
        n = rng.choice([1, 2, 8, 9, 12])
        ops.append("burst a " + " ".join(_data(rng) for _ in range(n)))
        ops += ["lclose a", "census", "counts"]
    elif kind == "failconn":
        ops.append(f"rawconn a v={v}")
        how = rng.choice(["badid", "badid", "notconnect", "closefirst"])
        if how == "badid":
            ops.append(f"burst a C:~:{v} " + " ".join(_data(rng) for _ in range(_after(rng))))
        elif how == "notconnect":
            ops.append("burst a " + " ".join(_data(rng) for _ in range(1 + _after(rng))))
        else:
            ops.append("lclose a")
        ops += ["census", "counts"]
        if rng.random() < 0.5 and how != "closefirst":
            ops += ["lclose a", "census"]
        ops += [f"conn b cb v={rng.choice([4, 5])}", "counts"]
    elif kind == "timeout":
        auth = rng.random() < 0.5
        ops.append(f"rawconn a v={5 if auth else v}")
        if auth:
            ops.append("burst a CA:ca")       # enhanced authentication that is never completed (the scripted reader must speak v5)
        ops += ["sleep 5150", "census", "counts"]
        if rng.random() < 0.5:
            ops += ["lclose a", "census"]
    elif kind == "takeover":
        # take-over while the old connection has traffic in flight
        ops += [f"conn a ca v={v}", f"conn p cp v=5", "rawconn b v=4"]
        n = rng.choice([1, 5, 9, 12])
        ops.append("par a:" + "+".join(_data(rng) for _ in range(n)) + " b:C:ca:4")
        ops += ["counts", "census"]
        if rng.random() < 0.5:
            ops += ["burst b PING", "lclose b", "counts", "census"]
    elif kind == "stalled":
        # a subscriber that stops reading, its out queue filling up, then a take-over of its client id
        n = rng.choice([3, 9, 10, 12])
        ops += ["rawconn a v=5 noread=1 cid=ca", "burst a C:ca:5 SUB:1:lc/t", "conn p cp v=5",
                "burst p " + " ".join(["PUB0:lc/t"] * n), "census", f"conn b ca v={rng.choice([4, 5])}", "census", "counts",
                "lclose a", "census", "counts"]
    elif kind == "auth":
        # enhanced authentication: k continuation rounds, completed or not, against a peer that reads or one that does not
        k = rng.choice([0, 1, 3, 8, 9, 10, 12])
        if rng.random() < 0.35:
            ops += ["rawconn a v=5 noread=1 cid=ca", "burst a CA:ca " + " ".join(["AU:more"] * k), "census", "lclose a", "census", "counts"]
        else:
            done = rng.random() < 0.7
            ops += ["rawconn a v=5", "burst a CA:ca " + " ".join(["AU:more"] * k + (["AU:done", "PING"] if done else [])), "census", "counts"]
            if rng.random() < 0.5:
                ops += ["lclose a", "census", "counts"]
    elif kind == "hold":
        # a handler held inside a plugin hook (SUBSCRIBE to lc/hold blocks in OnSubscribe until `release`) while the
        # connection ends or Stop is called: internalClose / Stop's return must wait for the handler
        v = rng.choice([4, 5])
        ops.append(f"conn a ca v={v}")
        if rng.random() < 0.4:
            ops.append("burst a SUB:2:lc/x")
        ops.append("burst a SUB:1:lc/hold" + rng.choice(["", " PING", " PING PUB0:lc/x", " DISC"]))
        ops.append("census")
        how = rng.choice(["close", "close", "mal", "stop", "stop", "alive"])
        if how == "stop":
            ops.append("lstop release=1")
            tail = False
        else:
            if how == "close":
                ops.append("lclose a")
            elif how == "mal":
                ops.append("burst a MAL")
            ops += ["census", "counts", "lcev", "release", "census", "counts", "lcev"]
    elif kind == "fault":
        # the k-th call into the persistence layer made on behalf of a CONNECT fails (session Get / Set, UnsubscribeAll, queue / unack
        # store creation and Init): the CONNECT is refused (or, when k is beyond the calls it makes, accepted), and the broker goes on
        # serving everybody else — no lock left held, no goroutine left behind, Stop returns
        ops.append(f"conn a ca v={v}")
        if rng.random() < 0.4:
            ops.append("burst a SUB:2:lc/x")
        ops += [f"api failat {rng.choice([1, 2, 3, 4, 5, 6, 7, 8, 9])}", f"conn b cb v={rng.choice([3, 4, 5])}", "api failat 0",
                "census", "counts", "lcev", f"conn c cc v={rng.choice([4, 5])}", "burst c PING SUB:3:lc/x", "burst a PUB0:lc/x", "census", "counts"]
        if rng.random() < 0.5:
            ops += [f"conn b2 cb v={rng.choice([4, 5])}", "census", "counts"]
    elif kind == "holdclose":
        # the tear-down of a connection is in progress (internalClose is inside the OnClosed hook of a client id hc…, which waits
        # for `release`) when Stop is called / another connection comes: Stop's return has to wait for it
        ops.append(f"conn a hc1 v={v}")
        if rng.random() < 0.5:
            ops.append(f"conn b cb v={rng.choice([4, 5])}")
        if rng.random() < 0.4:
            ops.append("burst a SUB:2:lc/x")
        ops.append(rng.choice(["lclose a", "lclose a", "burst a DISC", "burst a MAL"]))
        ops += ["census", "counts"]
        if rng.random() < 0.6:
            ops.append("lstop release=1")
            tail = False
        else:
            ops += ["lcev", "release", "census", "counts", "lcev"]
    elif kind == "preclose":
        ops += [f"rawconn a v={v}", "lclose a", "census", "counts"]
    elif kind == "stop":
        # Stop with connections in every stage, possibly with traffic in flight
        names = []
        if rng.random() < 0.7:
            ops.append(f"conn a ca v={v}"); names.append("a")
        if rng.random() < 0.6:
            ops.append("rawconn r v=4")                 # connected, no CONNECT yet
        if rng.random() < 0.4:
            ops.append(f"conn c cc v=5"); names.append("c")
        if rng.random() < 0.3:
            ops += ["rawconn f v=4", "burst f C:~:4"]   # refused CONNECT
        if names and rng.random() < 0.6:
            n = rng.choice([1, 9, 12])
            ops.append(f"lstop burst={rng.choice(names)}:" + "+".join(_data(rng) for _ in range(n)))
        else:
            ops.append("lstop")
        tail = False
    if tail:
        ops.append("lstop")
    return ops

# ---------------------------------------------------------------- canonical form of one output line

EV = re.compile(r"^[A-Za-z0-9_]+:(connack_ok|connack_err|closed)(,(connack_ok|connack_err|closed))*$")

def canon_line(op, line):
    f = op.split()
    toks = line.split(" ")
    hang = any(t.startswith(("HANG", "WEDGED")) for t in toks)
    keep, evs = [], {}
    connack_for = f[1] if f and f[0] == "conn" and len(f) > 1 else None
    for t in toks:
        if not t or t == "-" or t.startswith(("HANG", "WEDGED")):
            continue
        if "|H:" in t and "|P:" in t:
            name, rest = t.split("|H:", 1)
            h = wire.split_pkts(rest.split("|P:", 1)[0])
            for x in h:
                mc = re.match(r"connack\(sp=\d,code=(\d+)", x)
                if mc and name == connack_for:
                    evs.setdefault(name, []).append("connack_ok" if mc.group(1) == "0" else "connack_err")
                elif x == "closed":
                    evs.setdefault(name, []).append("closed")
        elif EV.match(t):
            name, e = t.split(":", 1)
            evs.setdefault(name, []).extend(e.split(","))
        elif t.startswith(("offline=", "wills=", "queues=", "unacks=")):
            continue
        else:
            keep.append(t)
    parts = (["HANG"] if hang else []) + keep + [f"{n}:{','.join(sorted(set(evs[n])))}" for n in sorted(evs)]
    return " ".join(parts) if parts else "-"

def faulted(ops):
    """index -> client id of the `conn` ops that run with a persistence fault armed (`api failat k`, k > 0, right in front)"""
    res = {}
    for i, o in enumerate(ops):
        f = o.split()
        if i > 0 and f[0] == "conn" and ops[i - 1].startswith("api failat ") and ops[i - 1].split()[2] != "0":
            res[i] = f[2]
    return res

def _strip_closed(line, cids):
    """the OnClosed hook may or may not fire for a CONNECT that failed inside registerClient (it does once `setConnected` has run):
    not part of what is compared"""
    def fix(m):
        evs = [e for e in m.group(1).split(",") if not (e.startswith("closed:") and e[7:] in cids)]
        return "ev=" + (",".join(evs) if evs else "-")
    return re.sub(r"\bev=(\S+)", fix, line)

def _refused(line):
    m = re.search(r"connack\(sp=\d,code=(\d+)", line)
    return bool(m) and m.group(1) != "0"

def hint(ops, impl_out):
    """a CONNECT that ran into an injected persistence fault is refused or (fault point beyond its calls) accepted: the model is told which"""
    res = list(ops)
    for i, cid in faulted(ops).items():
        if impl_out is not None and i < len(impl_out) and _refused(impl_out[i]):
            f = ops[i].split()
            res[i] = " ".join([f[0], f[1], "~"] + f[3:])
    return res

def canon(ops, out):
    cids = set(faulted(ops).values())
    return [canon_line(o, _strip_closed(l, cids) if cids else l) for o, l in zip(ops, out)]

# ---------------------------------------------------------------- the property, re-checked on what the broker reported

F37_MSG = ("[F37] readLoop is blocked for ever on `client.in <- packet`: client.in (8 slots) is full and nobody receives any more, so "
           "serve() never gets past readWg.Wait() and the client is never unregistered")
F47_MSG = ("[F47] setError is blocked on errOnce: the goroutine inside errOnce.Do is itself blocked sending the DISCONNECT on a full "
           "client.out")
F48_MSG = ("[F48] connectWithTimeOut is blocked on a plain send to client.out (AUTH(continue) / CONNACK(error)): client.out is full, "
           "writeLoop is stuck on or gone from a peer that does not read, and `connected` is never closed")

def _stuck_msg(text):
    """text: the `stuck=` field of a census, or a HANG token with its detail (VERIF_HANG_DETAIL: state @ function of every
    goroutine that is not parked in an accepted wait)"""
    if "read:chan_send" in text or ("chan_send" in text and "readLoop" in text):
        return F37_MSG
    if "sync.Mutex.Lock" in text:
        return F47_MSG + (" — or, when it is serve() that waits: server.mu taken on behalf of an earlier request was never given back"
                          if "serve:sync.Mutex.Lock" in text else "")
    if "serve:chan_send" in text or ("chan_send" in text and ("connectWithTimeOut" in text or "sendErrConnack" in text)):
        return F48_MSG
    return "a broker goroutine is parked where nothing will wake it"

class Ref:
    """what the scripted peers did, and what the specification says that leaves: which connections are alive, which of
    them are registered clients"""
    def __init__(self, zl):
        self.zl, self.st, self.cid, self.reader, self.must_close = zl, {}, {}, {}, set()
        self.held, self.pending, self.subs, self.evs = set(), {}, set(), []
    def _end(self, n):
        # a connection whose handler is still inside a hook cannot finish: serve() and the handler stay, the client stays
        # registered, until the handler returns ("zombie")
        if n in self.held:
            self.st[n] = "zombie"
        elif self.st[n] == "reg" and self.cid.get(n, "").startswith("hc"):
            # internalClose waits inside the OnClosed hook: serve() stays, the client stays registered, its subscriptions stay
            self.evs.append("closed:" + self.cid[n])
            self.st[n] = "czombie"
        else:
            if self.st[n] == "reg":
                self.evs.append("closed:" + self.cid[n])
            self.subs = {x for x in self.subs if x[0] != self.cid.get(n)} if self.st[n] == "reg" else self.subs
            self.st[n] = "dead"
    def kill(self, n):
        if self.st.get(n) in ("raw", "auth", "reg"):
            self._end(n)
    def server_ends(self, n):
        if self.st.get(n) in ("raw", "auth", "reg"):
            self._end(n)
            if self.reader.get(n):
                self.must_close.add(n)
    def release(self):
        for n in sorted(self.held):
            self.held.discard(n)
            self.evs.append("exit:" + self.cid[n])
            self.subs.add((self.cid[n], "lc/hold"))
            if self.st[n] == "zombie":
                self.st[n] = "reg"
                self._end(n)
                self.pending.pop(n, None)
            else:
                self.feed(n, self.pending.pop(n, []))
        for n in sorted(self.st):
            if self.st[n] == "czombie":
                self.evs.append("cdone:" + self.cid[n])
                self.subs = {x for x in self.subs if x[0] != self.cid[n]}
                self.st[n] = "dead"
    def czombies(self):
        return sum(1 for s in self.st.values() if s == "czombie")
    def feed(self, n, toks):
        for i, t in enumerate(toks):
            s = self.st.get(n)
            if n in self.held:
                # the handler is busy: packets queue up behind it; only what readLoop itself refuses ends the connection now
                if t == "MAL" and s == "reg":
                    self.server_ends(n)
                    return
                self.pending.setdefault(n, []).append(t)
                continue
            if s not in ("raw", "auth", "reg"):
                return
            f = t.split(":")
            if s == "raw":
                if f[0] == "C" and not (f[1] == "~" and not self.zl):
                    for m, c in list(self.cid.items()):
                        if c == f[1] and m != n and self.st.get(m) == "reg":
                            self.server_ends(m)          # take-over
                    self.subs = {x for x in self.subs if x[0] != f[1]}     # clean start
                    self.st[n], self.cid[n] = "reg", f[1]
                elif f[0] == "CA":
                    self.st[n], self.cid[n] = "auth", f[1]
                else:
                    self.server_ends(n)                  # refused CONNECT / first packet is not CONNECT
            elif s == "auth":
                if f[0] == "AU" and f[1] == "done":
                    self.st[n] = "reg"
                    self.subs = {x for x in self.subs if x[0] != self.cid[n]}
                elif f[0] == "AU":
                    pass
                else:
                    self.server_ends(n)
            elif f[0] in ("DISC", "ERR", "MAL"):
                self.server_ends(n)
            elif f[0] == "SUB" and f[2] == "lc/hold":
                self.held.add(n)
                self.evs.append("enter:" + self.cid[n])
            elif f[0] == "SUB":
                self.subs.add((self.cid[n], f[2]))
    def alive(self):
        return sum(1 for s in self.st.values() if s in ("raw", "auth", "reg"))
    def registered(self):
        return sum(1 for s in self.st.values() if s == "reg")
    def zombies(self):
        return sum(1 for s in self.st.values() if s == "zombie")

def ev_order(evs):
    """the order the property asks for: a handler has left (exit) before its connection is closed (OnClosed), and OnStop
    comes after every OnClosed and every handler exit"""
    for i, e in enumerate(evs):
        k, _, cid = e.partition(":")
        if k == "closed" and "enter:" + cid in evs and ("exit:" + cid not in evs[:i]):
            return f"OnClosed for {cid} (unregister, session and subscriptions removed, `closed` closed) ran while its handler was still working"
        if k == "onstop" and any(x.startswith(("exit:", "closed:", "cdone:")) for x in evs[i + 1:]):
            return "OnStop ran (Stop returned) before a packet handler / a connection had finished"
    return None

CENSUS = re.compile(r"serve=(\d+) read=(\d+) write=(\d+) handle=(\d+) poll=(\d+) stuck=(\S+)")

def predicate(ops, out):
    if len(out) != len(ops) or (out and out[0].startswith("CRASH")):
        return "implementation crashed or hung: " + (out[0][:300] if out else "")
    kv0 = dict(x.split("=", 1) for x in ops[0].split() if "=" in x)
    ref = Ref(kv0.get("zl", "1") == "1")
    flt = faulted(ops)
    fcids = set(flt.values())
    for opi, (op, raw) in enumerate(zip(ops, out)):
        f = op.split()
        kv = dict(x.split("=", 1) for x in f if "=" in x)
        pos = [x for x in f[1:] if "=" not in x]
        line = canon_line(op, raw)
        m = CENSUS.search(raw)
        if m and m.group(6) != "-":
            return f"{_stuck_msg(m.group(6))} — after `{op}`: {m.group(6)}"
        if "HANG" in line.split():
            # which goroutine it is shows in the next census of the script
            later = next((mm.group(6) for mm in (CENSUS.search(x) for x in out[out.index(raw):]) if mm and mm.group(6) != "-"), raw)
            return f"{_stuck_msg(later)} — after `{op}` the broker did not become quiescent within {QT} ms" + \
                   (f" ({later})" if later is not raw else "")
        evs = {}
        for t in line.split():
            if EV.match(t):
                n, e = t.split(":", 1)
                evs[n] = e.split(",")
        ref.must_close = set()
        if f[0] == "conn":
            ref.st[pos[0]], ref.reader[pos[0]] = "raw", True
            if opi in flt and "connack(" not in raw:
                return f"[fault] a CONNECT whose persistence call failed was not answered at all — `{op}`: {raw}"
            # a CONNECT that ran into an injected persistence fault: refused (the specification's refused CONNECT) or accepted
            ref.feed(pos[0], [f"C:{'~' if opi in flt and _refused(raw) else pos[1]}:{kv.get('v', '4')}"])
            want = "connack_ok" if ref.st[pos[0]] == "reg" else "connack_err"
            if want not in evs.get(pos[0], []):
                if want == "connack_ok":
                    return ("[F37/F47] a CONNECT was not answered: the older connection with this client id never finished closing "
                            f"(lockDuplicatedID waits on <-oldClient.closed / inside oldClient.setError) — `{op}`")
                return f"a refused CONNECT got no CONNACK — `{op}`"
        elif f[0] == "rawconn":
            ref.st[pos[0]], ref.reader[pos[0]] = "raw", kv.get("noread", "0") != "1"
        elif f[0] == "burst":
            ref.feed(pos[0], pos[1:])
        elif f[0] == "par":
            for spec in pos:
                n, toks = spec.split(":", 1)
                ref.feed(n, toks.split("+"))
        elif f[0] in ("lclose", "close"):
            ref.kill(pos[0])
        elif f[0] == "disc":
            ref.kill(pos[0])
        elif f[0] == "ping":
            ref.feed(pos[0], ["PING"])
        elif f[0] == "release":
            ref.release()
        elif f[0] == "lcev":
            got = dict(x.split("=", 1) for x in raw.split() if "=" in x)
            evs = [] if got.get("ev", "-") == "-" else got["ev"].split(",")
            evs = [e for e in evs if not (e.startswith("closed:") and e[7:] in fcids)]
            bad = ev_order(evs)
            if bad:
                return f"[join] {bad} — `{op}`: {raw}"
            if evs != [e for e in ref.evs if not (e.startswith("closed:") and e[7:] in fcids)]:
                return f"hook events {evs}, expected {ref.evs} — `{op}`"
            if int(got.get("subs", -1)) != len(ref.subs):
                return (f"[join] the subscription store holds {got.get('subs')} subscription(s), the sessions that exist hold {len(ref.subs)}: a handler "
                        f"that outlived its connection wrote into a session that had been removed — `{op}`")
        elif f[0] == "sleep" and int(pos[0]) >= 5000:
            for n, s in list(ref.st.items()):
                if s in ("raw", "auth"):
                    ref.server_ends(n)                   # CONNECT timeout
        elif f[0] == "counts":
            on = int(dict(x.split("=", 1) for x in raw.split() if "=" in x)["online"])
            want = ref.registered() + ref.zombies() + ref.czombies()
            if on != want:
                return ("[F37] a client whose connection has ended is still registered in srv.clients — "
                        f"`{op}`: online={on}, connections still attached: {want}" if on > want else
                        "[join] a client was unregistered (internalClose ran) while a goroutine of its connection was still working — "
                        f"`{op}`: online={on}, expected {want}" if ref.zombies() else
                        f"fewer clients registered than connections attached — `{op}`: online={on}, expected {want}")
        elif f[0] == "census":
            if not m:
                return f"`{op}`: unreadable census `{raw}`"
            sv, rd, wr, hd, pl = (int(m.group(i)) for i in range(1, 6))
            a, r, z = ref.alive(), ref.registered(), ref.zombies()
            cz = ref.czombies()
            if cz and not z:
                if (sv, rd, hd, pl) != (a + cz, a, r, r):
                    return ("[teardown] a connection whose internalClose is still inside the OnClosed hook must still have its serve() goroutine and "
                            f"nothing else — `{op}`: serve={sv} read={rd} write={wr} handle={hd} poll={pl}, expected serve={a + cz} read={a} handle={r} poll={r}")
                continue
            if z and (sv, rd, hd, pl) != (a + z, a, r + z, r):
                return ("[join] serve() must wait for the packet handler before internalClose: a connection has ended while its handler is "
                        f"still inside a hook — `{op}`: serve={sv} read={rd} write={wr} handle={hd} poll={pl}, expected serve={a + z} "
                        f"read={a} handle={r + z} poll={r}")
            if not z and ((sv, rd, hd, pl) != (a, a, r, r) or wr > a):
                tag = ("[F38] the server does not close a connection whose CONNECT it refused / that timed out: its goroutines stay"
                       if sv > a and hd == r else "goroutines of a connection that has ended are still there")
                return (f"{tag} — `{op}`: serve={sv} read={rd} write={wr} handle={hd} poll={pl}, but {a} connection(s) are open and "
                        f"{r} registered")
        elif f[0] == "lstop":
            if kv.get("release") == "1":
                got = dict(x.split("=", 1) for x in raw.split() if "=" in x)
                if (ref.held or ref.zombies()) and got.get("early") != "0":
                    return (f"[join] Stop returned while a packet handler of a connection was still working (held={got.get('held')}) — "
                            f"`{op}`: {raw}")
                if ref.czombies() and got.get("early") != "0":
                    return ("[teardown] Stop returned while the tear-down of a connection (internalClose: OnClosed hook, unregister, will, session "
                            f"end) was still in progress — `{op}`: {raw}")
                ref.release()
                bad = ev_order([] if got.get("ev", "-") == "-" else got["ev"].split(","))
                if bad:
                    return f"[join] {bad} — `{op}`: {raw}"
            if not raw.startswith("stopped "):
                return f"{_stuck_msg(raw)} — Stop did not return within its 3 s context ({raw.split()[0]}) after `{op}`"
            if "unload=1 onstop=1" not in raw:
                return f"plugin Unload / OnStop did not run exactly once — `{op}`: {raw}"
            if not m or any(int(m.group(i)) for i in range(1, 6)):
                return ("[F38] Stop returned but goroutines of connections are left while their peers are still connected: Stop only "
                        f"closes registered clients — `{op}`: {m.group(0) if m else raw}")
        for n in ref.must_close:
            if f[0] != "lstop" and "closed" not in evs.get(n, []):
                return ("[F38] the server has to end a connection (refused CONNECT, DISCONNECT, protocol error, timeout or take-over) "
                        f"but does not close the socket — `{op}`: connection {n}")
    return None

def nontrivial(ops, out):
    """a fatal packet followed by ≥ 9 more in one write, a refused / missing CONNECT, a take-over with traffic, a stalled
    subscriber, or a Stop with an unregistered connection"""
    for o in ops:
        f = o.split()
        if f[0] == "burst":
            for i, t in enumerate(f[2:]):
                if t.split(":")[0] in ("DISC", "ERR", "MAL") and len(f[2:]) - i - 1 >= 9:
                    return True
                if t.startswith("C:~") or (i == 0 and f[1] != "p" and not t.startswith(("C:", "CA:")) and "rawconn " + f[1] in " ".join(ops)):
                    return True
        if f[0] in ("par", "sleep", "release") or "release=1" in o or "noread=1" in o or (f[0] == "lstop" and any(x.startswith("rawconn") for x in ops)):
            return True
    return False

class LifecycleStream(core.Stream):
    """Go side: drive_broker (or its -race build); Lean side: oracle_lifecycle"""
    def impl(self, cases):
        # one process per case: a goroutine wedged by one script must not show up in the census of the next
        cmd = [core.drive_exe(self.comp)] + self.drive_args
        outs = core.run_parallel(cmd, cases, chunk=1, timeout=self.timeout)
        # the scripts are deterministic: a failure that is real shows again when the case runs alone. One that came from
        # an overloaded machine (quiescence not reached in time, the 5 s CONNECT timer firing early in wall-clock terms)
        # does not. Failing cases are therefore re-run one at a time before they are believed.
        # HANG with a goroutine parked in `chan send` / on a mutex in the census is a confirmed wedge, not a slow machine:
        # rename the token so that core.correspond does not re-run the case (serially, twice) before believing it
        for i, o in enumerate(outs):
            if any(((m := CENSUS.search(l)) and m.group(6) != "-") or re.search(r"HANG:\S*(chan_send|Mutex)", l) for l in o):
                outs[i] = [re.sub(r"\bHANG", "WEDGED", l) for l in o]
        if len(cases) > 1:
            for i, (c, o) in enumerate(zip(cases, outs)):
                if self.predicate and core.safe_pred(self, c, o) and not any("HANG" in l or "WEDGED" in l for l in o):
                    o2 = core.run_cases(cmd, [c], self.timeout)[0]
                    if not core.safe_pred(self, c, o2):
                        outs[i] = o2
        return outs
    def model(self, cases, impl_outs=None):
        mcases = [hint(c, o) if impl_outs is not None and len(o) == len(c) else c for c, o in zip(cases, impl_outs or cases)]
        mo = core.run_parallel([core.oracle_exe("lifecycle")] + self.oracle_args, mcases, timeout=self.timeout)
        # same policy for a disagreement with the model: the case runs once more alone before the disagreement is reported
        # (impl_outs is the list `correspond` goes on to use)
        if impl_outs is not None and len(cases) > 1:
            cmd = [core.drive_exe(self.comp)] + self.drive_args
            for i, (c, o, m) in enumerate(zip(cases, impl_outs, mo)):
                if len(o) == len(c) and self.canon(c, o) != self.canon(c, m):
                    o2 = core.run_cases(cmd, [c], self.timeout)[0]
                    if len(o2) == len(c) and self.canon(c, o2) == self.canon(c, m):
                        impl_outs[i] = o2
        return mo

def race_predicate(ops, out):
    if out and out[0].startswith("CRASH"):
        if "DATA RACE" in out[0] or "data race" in out[0]:
            return "the Go race detector reported a data race: " + out[0][:600]
        return "implementation crashed or hung: " + out[0][:300]
    return predicate(ops, out)

def streams(tier):
    n = 300 if tier == "quick" else 3000
    res = [(LifecycleStream("lifecycle", "broker", gen, predicate, nontrivial, canon=canon, keep_prefix=1, timeout=600), n)]
    if tier == "thorough":
        res.append((LifecycleStream("lifecycle-race", "broker_race", gen, race_predicate, nontrivial, canon=canon, keep_prefix=1,
                                    timeout=1800), 3000))
    return res

def _lock_cycle_report():
    """the edges the extractor marked as closing a cycle, with their sites (from Generated/Locks.lean)"""
    p = os.path.join(core.LEAN, "GmqttVerif", "Generated", "Locks.lean")
    try:
        s = open(p).read()
    except OSError:
        return "Generated/Locks.lean missing"
    m = re.search(r"edges that close a cycle.*?:\n(.*?)-/\ndef lockFeedback", s, re.S)
    fb = [l.strip() for l in (m.group(1).split("\n") if m else []) if l.strip()]
    sites = []
    for e in fb:
        sm = re.search(r"^\s*" + re.escape(e) + r"\s+\((.*?)\)\s*$", s, re.M)
        sites.append(f"{e}   ({sm.group(1)})" if sm else e)
    return "\n".join(sites)

def run(r):
    mod = __import__(__name__, fromlist=["x"])
    # facts (lock order) are re-extracted from the tree on every run
    rc, out = core.build_go(r.log, ["extract"])
    if rc == 0:
        rc, out = core.extract_facts(r.log, NEEDS_FACTS)
    if rc != 0:
        r.violation("extract", "# fact extractor failed on the tree: the regenerated tie no longer checks\n" + out[-3000:], False,
                    "extractor failed")
    if not r.prove(MODULE, THEOREMS, comps=["lifecycle"]) and r.proof.get("build_failed"):
        # which half failed? the lifecycle theorems do not depend on the tree; lock_order_acyclic does
        rc, _ = core.build_lean([BASE_MODULE], r.log)
        cyc = _lock_cycle_report()
        if rc == 0 and cyc:
            r.violation("lockorder", "# lock_order_acyclic does not hold for this tree: the extracted acquired-while-holding relation has a "
                        "cycle.\n# edges that close a cycle (Generated/Locks.lean lockFeedback), with one site each:\n" +
                        "\n".join("#   " + l for l in cyc.split("\n")) + "\n", False, "lock-order cycle")
    comps = ["broker"]
    rc, out = core.build_go(r.log, comps)
    if rc != 0:
        r.violation("go-build", "# harness does not build against the tree any more\n" + out[-3000:], False, "go build failed")
        return r.finish(level="proof", rule=RULE, assumptions=ASSUME)
    if r.tier == "thorough":
        with core.Lock("go"):
            rc, out = core.sh(["go", "build", "-race", "-tags", "verif", "-o", os.path.join(core.HARNESS, "bin", "drive_broker_race"),
                               "./cmd/drive_broker"], cwd=core.HARNESS, env=core.goenv(), timeout=900)
        r.log(f"go build -race rc={rc}")
        if rc != 0:
            r.notes.append("the -race build of the driver failed; the race-detector runs were skipped: " + out[-300:])
    # support for lock_order_acyclic: a stress run that hits the known lock-order cycle within seconds if it is there
    with core.Lock("go"):
        rc, out = core.sh(["go", "build", "-tags", "verif", "-o", os.path.join(core.HARNESS, "bin") + "/", "./cmd/probe_lockorder"],
                          cwd=core.HARNESS, env=core.goenv(), timeout=900)
    if rc != 0:
        r.violation("go-build-probe", "# cmd/probe_lockorder does not build\n" + out[-2000:], False, "go build failed")
    else:
        secs = 8 if r.tier == "quick" else 60
        p = subprocess.run([os.path.join(core.HARNESS, "bin", "probe_lockorder"), "-seconds", str(secs)], stdout=subprocess.PIPE,
                           stderr=subprocess.PIPE, text=True, timeout=secs + 60)
        r.log(f"probe_lockorder {secs}s: {p.stdout.strip()[:80]}")
        r.cov["lockorder_probe"] = p.stdout.strip()[:80]
        if p.returncode != 0:
            stacks = [g for g in p.stderr.split("\n\n") if "RWMutex" in g or "sync.Mutex.Lock" in g or "sync.(*Mutex).Lock" in g][:6]
            why = ("lock order: the broker deadlocked under PUBLISH (delivery mode overlap) + SUBSCRIBE + new connections: " +
                   p.stdout.strip())
            r.violation("lockorder-probe", "# " + why + "\n# run: harness/bin/probe_lockorder -seconds 10\n# goroutines waiting for "
                        "a mutex:\n" + "\n\n".join(stacks)[:6000] + "\n", True, "deadlock in probe_lockorder")
    for s, n in streams(r.tier):
        if s.name == "lifecycle-race" and not os.path.exists(core.drive_exe("broker_race")):
            continue
        r.correspond(s, n)
    return r.finish(level="proof", rule=RULE, assumptions=ASSUME)

RULE = ("lifecycle scripts on a real in-process broker: a fatal packet (DISCONNECT, handler error, malformed bytes) with 0..12 more "
        "packets behind it in ONE write — the boundary is the 8 slots of client.in —, the peer going away at a packet boundary, refused "
        "CONNECT / first packet not CONNECT / close before CONNECT / CONNECT timeout (5 s, rare), enhanced authentication with 0..12 "
        "continuation rounds (peer reading or not), a packet handler held inside a plugin hook while the peer hangs up / readLoop fails / "
        "Stop is called (hook event order handler-exit < OnClosed < OnStop, subscriptions left in the store), take-over with traffic in flight on the "
        "old connection, take-over of a subscriber that stopped reading with its out queue full, Stop with registered, unregistered and "
        "refused connections and a burst in flight; v3.1 / v3.1.1 / v5. Observed after exact quiescence: closed connections, registered "
        "clients, goroutine census by kind (runtime.Stack), Stop's return, Unload / OnStop counts; compared with the Lean lifecycle model "
        "and re-checked by the Python predicate against the script. non-trivial = ≥ 9 packets behind a fatal one, a refused or missing "
        "CONNECT, a take-over, a stalled peer, or Stop with an unregistered connection. thorough: the same scripts under a -race build")
ASSUME = ["PARTIAL: data-race freedom and absence of panics in general are NOT proved (no executable model expresses the Go memory "
          "model); the -race runs of the thorough tier only observe them",
          "the interleaving model's atomic steps are the blocking operations of server/client.go / server.go; Go's scheduler, channels, "
          "sync.Once, sync.Cond and mutexes are trusted to behave as specified",
          "lock-order edges come from a go/ast approximation (harness/cmd/extract/locks.go: may-hold regions, calls resolved by static "
          "type where the struct table allows, else by method name); locks inside zap/grpc/serf/redigo are not seen",
          "keep-alive deadlines, Client.Disconnect, persistence errors in registerClient, Stop's ctx deadline and WebSocket listeners are "
          "not modelled; the scripted peers run on an in-memory pipe (no kernel socket buffers)"]
