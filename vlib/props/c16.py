"""C16 — federation event stream: ordered, at-least-once, applied once (eventQueue, sessionMgr/eventStreamHandler,
localSubStore, and the two-node integration `fedsim`)."""
import re
from .. import core

PROP = "C16"
MODULE = "GmqttVerif.Properties.C16"
THEOREMS = [
    "GmqttVerif.FedSource.event_protocol_functions_as_transcribed",
    "GmqttVerif.Fed.applied_is_prefix_exactly_once",
    "GmqttVerif.Fed.applied_is_prefix_exactly_once_as_is_refuted",
    "GmqttVerif.Fed.unaligned_is_silent",
    "GmqttVerif.Fed.stale_session_is_empty_and_resynced",
    "GmqttVerif.Fed.no_event_lost_while_session_lasts",
    "GmqttVerif.Fed.lru_only_last_id_needed",
    "GmqttVerif.Fed.quiescent_equal",
    "GmqttVerif.Fed.quiescent_equal_as_is_refuted",
    "GmqttVerif.Fed.lost_hello_schedule_fixed",
    "GmqttVerif.Fed.stable_stream_reaches_quiescence",
    "GmqttVerif.Fed.resync_restores",
    "GmqttVerif.Fed.clean_start_resyncs",
    "GmqttVerif.Fed.localSubs_refcount",
    "GmqttVerif.Fed.localSubs_events_exactly_on_edges",
    "GmqttVerif.Fed.hook_event_reaches_every_peer",
]
THEOREMS += ["GmqttVerif.ResyncRace.resync_restores_equality", "GmqttVerif.ResyncRace.resync_restores_equality_quiet",
             "GmqttVerif.ResyncRace.snapshot_first_can_lose", "GmqttVerif.ResyncRace.source_resync_order",
             "GmqttVerif.FedSource.init_stream_as_transcribed"]
EXTRA_MODULES = ["GmqttVerif.Properties.FedSource", "GmqttVerif.Properties.FedResync"]
NEEDS_FACTS = ["FedFuncs", "FedResync"]
COMPS = ["fedqueue", "fedsession", "localsubs", "fedsim"]

# ------------------------------------------------------------------ eventQueue

def gen_queue(rng):
    """half the cases follow the protocol (acks only for fetched ids, positions inside the queue), half are wild"""
    wild = rng.random() < 0.45
    ops = ["new"]
    tag = 0
    nid = 0          # next id the queue will assign
    fetched = -1     # highest id handed out by fetch so far (protocol mode bookkeeping, approximate)
    acked = -1
    n = rng.choice([6, 20, 60, 150])
    big = rng.random() < 0.15
    for _ in range(rng.randint(1, n)):
        r = rng.random()
        if r < 0.40:
            k = rng.choice([1, 1, 1, 2, 5]) if not big else rng.choice([1, 30, 99, 100, 101, 130])
            for _ in range(k):
                tag += 1; nid += 1
                ops.append(f"add {tag}")
        elif r < 0.62:
            ops.append("fetch")
            fetched = min(nid - 1, max(fetched, -1) + 100) if nid else fetched
        elif r < 0.78:
            if wild:
                ops.append(f"ack {rng.randint(0, max(0, nid + 1))}")
            elif fetched > acked:
                a = rng.randint(acked + 1, fetched) if rng.random() < 0.8 else rng.randint(0, fetched)
                acked = max(acked, a)
                ops.append(f"ack {a}")
        elif r < 0.90:
            if wild:
                ops.append(f"setpos {rng.randint(0, nid + 1)}")
            else:
                # reconnect: the peer reports an id between the first unacknowledged and the first unsent one
                lo, hi = acked + 1, max(acked + 1, fetched + 1)
                p = rng.randint(lo, hi)
                ops.append("close")
                ops.append(f"setpos {p}")
                ops.append("open")
                fetched = p - 1
        elif r < 0.93:
            ops.append("clear"); nid = 0; fetched = acked = -1
        elif r < 0.965:
            ops.append("close")
        else:
            ops.append("open")
    ops += ["open", "fetch", "fetch", "fetch"]
    return ops

DUMP = re.compile(r"l=\[([0-9,.]*)\] cur=(\S+) nid=(\d+) closed=([01])")

def ids_of(txt):
    if ".." in txt:
        a, b = txt.split("..")
        return list(range(int(a), int(b) + 1))
    return [int(x) for x in txt.split(",") if x]


def pred_queue(ops, out):
    """property of the queue under protocol-conformant use: ids are consecutive; the list is the contiguous ascending range of
    unacknowledged ids; fetch hands out, in id order without gaps, at most 100 events starting at the cursor; nothing that
    was not acknowledged is ever skipped. Histories that acknowledge an id not yet fetched or leave the contract otherwise
    are compared against the model only."""
    if len(out) != len(ops) or (out and out[0].startswith("CRASH")):
        return "implementation crashed or hung: " + (out[0] if out else "")
    nid = 0
    pending = []      # unacknowledged ids ascending
    cur = None        # id the next fetch starts with (None = nothing to send)
    for op, o in zip(ops, out):
        if o in ("panic", "bad-op", "hang"):
            return f"`{op}` -> {o}"
        m = DUMP.search(o)
        if not m:
            return f"unparsable `{o}`"
        f = op.split()
        if f[0] in ("new", "clear"):
            nid, pending, cur = 0, [], None
        elif f[0] == "add":
            if not o.startswith(f"id={nid} "):
                return f"`{op}` assigned {o.split()[0]}, expected id={nid}"
            pending.append(nid)
            if cur is None:
                cur = nid
            nid += 1
        elif f[0] == "fetch":
            if o.startswith("closed") or o.startswith("blocked"):
                if o.startswith("blocked") and cur is not None and pending:
                    return f"`fetch` blocked although event {cur} is waiting to be sent"
            else:
                ids = [int(x.split(":")[0]) for x in re.search(r"ev=\[([^\]]*)\]", o).group(1).split(",") if x]
                want = [i for i in pending if cur is not None and i >= cur][:100]
                if ids != want:
                    return f"`fetch` returned ids {ids[:5]}..({len(ids)}), expected {want[:5]}..({len(want)})"
                nxt = [i for i in pending if i > ids[-1]]
                cur = nxt[0] if nxt else None
        elif f[0] == "ack":
            k = int(f[1])
            if cur is not None and k >= cur or (cur is None and k >= nid):
                return None          # acknowledging something never sent: outside the protocol, model comparison only
            pending = [i for i in pending if i > k]
        elif f[0] == "setpos":
            k = int(f[1])
            if k in pending:
                cur = k
            elif not (k == nid and cur is None):
                return None          # position outside the queue: outside the protocol (see finding lost-hello)
        ids = ids_of(m.group(1))
        if ids != pending:
            return f"after `{op}` the queue holds {ids[:6]}.., expected the unacknowledged ids {pending[:6]}.."
        if int(m.group(3)) != nid:
            return f"after `{op}` nextID={m.group(3)}, expected {nid}"
        want_cur = "nil" if cur is None else f"at:{cur}"
        if m.group(2) != want_cur:
            return f"after `{op}` cursor={m.group(2)}, expected {want_cur}"
    return None

def nontriv_queue(ops, out):
    """a reconnect (setpos) that moves the cursor back over already fetched events, followed by a fetch"""
    back = False
    prev = None
    for op, o in zip(ops, out):
        m = DUMP.search(o)
        if not m:
            continue
        if op.startswith("setpos") and prev and prev != m.group(2) and m.group(2).startswith("at:"):
            back = True
        if back and op == "fetch" and o.startswith("ev=[") :
            return True
        prev = m.group(2)
    return False

# ------------------------------------------------------------------ receiver: sessionMgr / Hello / EventStream loop

TOPICS = ["a", "a/b", "a/+", "#", "x/#", "$SYS/x", "b"]
SHARES = ["g", "h"]

def body(rng, shared_ok):
    r = rng.random()
    if r < 0.45:
        sh = rng.choice(SHARES) if shared_ok and rng.random() < 0.35 else "-"
        return f"sub {sh} {rng.choice(TOPICS)}"
    if r < 0.75:
        t = rng.choice(TOPICS)
        if shared_ok and rng.random() < 0.35:
            t = f"$share/{rng.choice(SHARES)}/{t}"
        return f"unsub {t}"
    return f"msg {rng.choice(['t/1', 't/2', 'a', '$SYS/x'])} {rng.choice([0, 0, 1])} {rng.choice([0, 1, 2, 3])} {rng.choice([0, 1, 2])}"

def gen_session(rng, f19=False):
    """self name `A` marks a protocol-conformant sender (ids as the real peer would send them), `X` an adversarial one.
    `f19=True`: always conformant, shared subscriptions combined with clean starts and node failures (regression stream for F19)."""
    conform = f19 or rng.random() < 0.6
    ops = [f"new {'A' if conform else 'X'}"]
    nodes = ["B", "C"]
    st = {n: dict(joined=False, sid=1, rsid=None, rnext=0, hist=[], pos=0, open=False) for n in nodes}
    resume_only = (not f19) and rng.random() < 0.5      # one clean start per node, never fail
    shared_ok = True                                     # (F19 fixed in a8278d7: clean starts may hit shared entries)
    n_ops = rng.choice([8, 25, 60, 160])
    long_run = rng.random() < 0.12
    for _ in range(rng.randint(3, n_ops)):
        n = rng.choice(nodes)
        s = st[n]
        r = rng.random()
        if not s["joined"]:
            if r < 0.1:
                ops.append(f"hello {n} {s['sid']}")     # not joined yet: error
            ops.append(f"join {n}"); s["joined"] = True
            continue
        if not s["open"]:
            if r < 0.08 and not resume_only:
                ops.append(f"fail {n}"); s.update(joined=False, rsid=None); s["sid"] += 1
                continue
            if r < 0.2 and not resume_only and s["rsid"] is not None:
                s["sid"] += 1                           # sender restarted: new session id
            ops.append(f"hello {n} {s['sid']}")
            if s["rsid"] != s["sid"]:
                s.update(rsid=s["sid"], rnext=0, hist=[], pos=0)
            else:
                s["pos"] = s["rnext"]                   # conformant sender resumes at the reported id
            if rng.random() < 0.9:
                ops.append(f"open {n}"); s["open"] = True
            continue
        # stream open
        if r < 0.70:
            k = rng.choice([1, 1, 2, 4]) if not long_run else rng.choice([1, 60, 120])
            for _ in range(k):
                ok = 0 if rng.random() < (0.06 if k < 10 else 0.01) else 1
                if conform:
                    i = s["pos"]
                    if i >= len(s["hist"]):
                        s["hist"].append(body(rng, shared_ok))
                    ops.append(f"ev {n} {i} {ok} {s['hist'][i]}")
                    s["pos"] = i + 1
                else:
                    i = max(0, s["rnext"] + rng.choice([0, 0, 0, 1, -1, -2, 5, -101, -150]))
                    ops.append(f"ev {n} {i} {ok} {body(rng, shared_ok)}")
                if ok:
                    s["rnext"] = i + 1
                else:
                    s["open"] = False
                    break
        elif r < 0.85:
            ops.append(f"break {n}"); s["open"] = False
        elif r < 0.93:
            ops.append("dump")
        elif not resume_only:
            ops.append(f"fail {n}"); s.update(joined=False, rsid=None, open=False); s["sid"] += 1
    ops.append("dump")
    return ops

def split_topic(t):
    if t.startswith("$share/"):
        p = t.split("/", 2)
        return (p[1], p[2]) if len(p) == 3 else ("", "")
    return ("", t)

def pred_session(ops, out):
    """C16 on the receiver for a protocol-conformant sender (cases `new A`): within one session every event id is applied
    exactly once and in id order (a re-sent id is acknowledged but not applied again), Hello reports clean_start exactly when
    the session id is new and otherwise the id after the last acknowledged one, a clean start leaves no subscription of the
    node behind, and the node's entries in the federation tree are exactly the result of applying its Subscribe/Unsubscribe
    events once, in order. Every published message is echoed exactly once. Adversarial cases (`new X`): model comparison only."""
    if len(out) != len(ops) or (out and out[0].startswith("CRASH")):
        return "implementation crashed or hung: " + (out[0] if out else "")
    for op, o in zip(ops, out):
        if o in ("panic", "hang", "bad-op") or o.startswith("acks="):
            return f"`{op}` -> {o}"
    if ops[0] != "new A":
        return None
    sess = {}      # node -> dict(sid, applied (count), subs set, acked)
    joined = set()
    stream = set()
    pubs = 0
    for op, o in zip(ops, out):
        f = op.split()
        if f[0] == "join":
            joined.add(f[1])
        elif f[0] == "fail":
            if f[1] in joined:
                joined.discard(f[1]); sess.pop(f[1], None); stream.discard(f[1])
        elif f[0] == "hello":
            n, sid = f[1], f[2]
            stream.discard(n)
            if n not in joined:
                if o != "err":
                    return f"`{op}` accepted although the node has not joined"
                continue
            s = sess.get(n)
            if s is None or s["sid"] != sid:
                if o != "clean=1 next=0":
                    return f"`{op}` -> {o}; a new session id must give clean=1 next=0"
                sess[n] = dict(sid=sid, applied=0, acked=0, subs=set())
            else:
                if o != f"clean=0 next={s['acked']}":
                    return f"`{op}` -> {o}; expected clean=0 next={s['acked']} (id after the last acknowledged event)"
        elif f[0] == "open":
            if f[1] in sess and o == "ok":
                stream.add(f[1])
        elif f[0] == "break":
            stream.discard(f[1])
        elif f[0] == "ev":
            n, i, ok = f[1], int(f[2]), f[3] == "1"
            if n not in stream:
                if o != "closed":
                    return f"`{op}` -> {o} without an open stream"
                continue
            s = sess[n]
            fresh = i >= s["applied"]
            if i > s["applied"]:
                return None       # generator bug guard: conformant senders never skip
            if fresh:
                s["applied"] = i + 1
                b = f[4:]
                if b[0] == "sub":
                    s["subs"].add(("" if b[1] == "-" else b[1], b[2]))
                elif b[0] == "unsub":
                    s["subs"].discard(split_topic(b[1]))
            has_pub = " pub=" in o
            if f[4] == "msg":
                if fresh and not has_pub:
                    return f"`{op}`: message event {i} was not published (lost)"
                if not fresh and has_pub:
                    return f"`{op}`: message event {i} was published again (duplicate application)"
                if has_pub:
                    pubs += 1
                    want = f"pub={'' if f[5] == '-' else f[5]}:{f[6]}:{int(f[7])}:{f[8]}"
                    if want not in o:
                        return f"`{op}` published {o.split('pub=')[1]}, expected {want[4:]}"
            elif has_pub:
                return f"`{op}` published a message for a non-message event"
            if ok:
                if not o.startswith(f"ack={i} "):
                    return f"`{op}` acknowledged {o.split()[0]}, expected ack={i}"
                s["acked"] = i + 1
            else:
                stream.discard(n)
        elif f[0] == "dump":
            m = re.match(r"subs=\[(.*?)\] sess=\[(.*?)\] retained=\[(.*?)\] pubs=(\d+) peers=\[(.*?)\]$", o)
            if not m:
                return f"unparsable dump `{o}`"
            got = set()
            for e in [x for x in m.group(1).split(";") if x]:
                nd, sh, fl = e.split("|")
                got.add((nd, "" if sh == "-" else sh, fl))
            want = set((n, sh, fl) for n, s in sess.items() for sh, fl in s["subs"])
            if got != want:
                extra, missing = sorted(got - want), sorted(want - got)
                return (f"federation tree differs from the events applied once in order: unexpected {extra[:3]}, missing {missing[:3]}"
                        )
            if int(m.group(4)) != pubs:
                return f"dump reports {m.group(4)} publishes, {pubs} were echoed"
    return None

def nontriv_session(ops, out):
    """a resumed session (clean=0) in which an already applied event is sent again"""
    resumed = False
    for op, o in zip(ops, out):
        if op.startswith("hello") and o.startswith("clean=0"):
            resumed = True
        if resumed and op.startswith("ev") and "ack=" in o:
            return True
    return False

# ------------------------------------------------------------------ localSubStore + hooks

LTOPICS = [("-", "a"), ("-", "a/b"), ("-", "#"), ("g", "a"), ("h", "a"), ("g", "x/+")]

def full(sh, fl):
    return fl if sh == "-" else f"$share/{sh}/{fl}"

def gen_local(rng):
    ops = ["new A"]
    clients = ["c1", "c2", "c3", "c4"][: rng.choice([2, 3, 4])]
    if rng.random() < 0.5:
        seen = set()
        for _ in range(rng.randint(0, 6)):
            c = rng.choice(clients); sh, fl = rng.choice(LTOPICS)
            if (c, sh, fl) not in seen:
                seen.add((c, sh, fl)); ops.append(f"pre {c} {sh} {fl}")
        ops.append("load")
    for p in ["B", "C"][: rng.choice([0, 1, 2])]:
        ops.append(f"join {p}")
    for _ in range(rng.randint(1, rng.choice([6, 20, 50]))):
        r = rng.random()
        c = rng.choice(clients); sh, fl = rng.choice(LTOPICS)
        if r < 0.45:
            ops.append(f"sub {c} {sh} {fl}")
        elif r < 0.75:
            ops.append(f"unsub {c} {full(sh, fl)}")
        elif r < 0.85:
            ops.append(f"term {c}")
        elif r < 0.9:
            ops.append(f"join {rng.choice(['B', 'C', 'A'])}")
        elif r < 0.93:
            ops.append(f"fail {rng.choice(['B', 'C'])}")
        else:
            ops.append("dump")
    ops.append("dump")
    return ops

def pred_local(ops, out):
    """`topics[t]` = number of local clients subscribed to t; a Subscribe event goes to every peer exactly on 0→1, an
    Unsubscribe exactly on 1→0 (also for each topic a terminated session held alone); nothing otherwise."""
    if len(out) != len(ops) or (out and out[0].startswith("CRASH")):
        return "implementation crashed or hung: " + (out[0] if out else "")
    subs = set()          # (client, fulltopic)
    pre = set()
    peers = {}            # peer -> queue length
    def count(t): return sum(1 for (_, x) in subs if x == t)
    def check_dump(o):
        m = re.match(r"topics=\[(.*?)\] index=\[(.*?)\]$", o)
        if not m:
            return f"unparsable dump `{o}`"
        tp = dict((x.rsplit(":", 1)[0], int(x.rsplit(":", 1)[1])) for x in m.group(1).split(";") if x)
        want = {}
        for (_, t) in subs:
            want[t] = want.get(t, 0) + 1
        if tp != want:
            return f"reference counts {tp} differ from the number of subscribed clients {want}"
        ix = set(tuple(x.split(":", 1)) for x in m.group(2).split(";") if x)
        if ix != subs:
            return f"client index {sorted(ix)[:4]} differs from the subscriptions {sorted(subs)[:4]}"
        return None
    for op, o in zip(ops, out):
        if o in ("panic", "bad-op", "peers-differ", "hang"):
            return f"`{op}` -> {o}"
        f = op.split()
        exp = None
        if f[0] == "pre":
            pre.add((f[1], full(f[2], f[3])))
        elif f[0] == "load":
            subs = set(pre)
            w = check_dump(o)
            if w: return "after load: " + w
        elif f[0] == "join":
            if f[1] != "A" and f[1] not in peers:
                peers[f[1]] = 0
        elif f[0] == "fail":
            peers.pop(f[1], None)
        elif f[0] == "sub":
            t = full(f[2], f[3])
            exp = []
            if (f[1], t) not in subs:
                if count(t) == 0:
                    exp = [f"sub:{f[2]}:{f[3]}"]
                subs.add((f[1], t))
        elif f[0] == "unsub":
            exp = []
            if (f[1], f[2]) in subs:
                subs.discard((f[1], f[2]))
                if count(f[2]) == 0:
                    exp = [f"unsub:{f[2]}"]
        elif f[0] == "term":
            mine = [t for (c, t) in subs if c == f[1]]
            subs = set(x for x in subs if x[0] != f[1])
            exp = sorted(f"unsub:{t}" for t in mine if count(t) == 0)
        elif f[0] == "dump":
            w = check_dump(o)
            if w: return w
        if exp is not None:
            m = re.match(r"ev=\[(.*?)\] q=\[(.*?)\]$", o)
            if not m:
                return f"unparsable `{o}`"
            got = [x for x in m.group(1).split(",") if x] if peers else []
            if peers and got != exp:
                return f"`{op}` emitted {got}, the 0→1 / 1→0 rule requires {exp}"
            for p in peers:
                peers[p] += len(exp)
            q = dict((x.split(":")[0], int(x.split(":")[1])) for x in m.group(2).split(",") if x)
            if q != peers:
                return f"`{op}`: peer queue lengths {q}, expected {peers}"
            # every peer queue numbers its own events: ids in one queue are consecutive (the receiver applies an event only
            # when its id is the next one it expects and drops ids it has seen)
            for x in m.group(2).split(","):
                ps = x.split(":")
                if len(ps) >= 3 and ps[2]:
                    ids = [int(i) for i in ps[2].split("+")]
                    if any(b != a + 1 for a, b in zip(ids, ids[1:])):
                        return f"`{op}`: the events queued for peer {ps[0]} carry ids {ids}, not consecutive numbers"
    return None

def nontriv_local(ops, out):
    """a topic held by two clients loses one of them without an event and later the other with an Unsubscribe event"""
    quiet = False
    for op, o in zip(ops, out):
        if (op.startswith("unsub") or op.startswith("term")) and o.startswith("ev=[]"):
            quiet = True
        elif quiet and "ev=[unsub:" in o:
            return True
    return False

# ------------------------------------------------------------------ fedsim (two real Federation values, real stream loops)

def gen_sim(rng):
    """schedule for two in-process nodes S (sender) and R (receiver); see harness/cmd/drive_fedsim. Every op is followed by a
    wait for quiescence, so the one-shot faults hit at exact event indices."""
    ops = ["new"]
    topics = ["a", "b", "a/+", "x/#"]
    for _ in range(rng.randint(0, 3)):
        ops.append(f"lsub c{rng.randint(1, 3)} {rng.choice(topics)}")
    if rng.random() < 0.4:
        ops.append(f"retain r/{rng.randint(1, 2)} {rng.randint(1, 5)}")
    lost_hello = rng.random() < 0.35
    if rng.random() < 0.1:
        ops.append("cut-open")
    def racing_hook():
        # another client's subscribe / unsubscribe that runs INSIDE the next clean start: when the queue is about to be cleared,
        # or between the clear and the snapshot of the local topics
        return (f"{rng.choice(['at-clear', 'after-clear'])} {rng.choice(['lsub', 'lsub', 'lunsub'])} "
                f"c{rng.randint(1, 3)} {rng.choice(topics)}")
    if rng.random() < 0.3:
        ops.append(racing_hook())
    ops.append("connect")
    for _ in range(rng.randint(2, rng.choice([6, 14, 30]))):
        r = rng.random()
        if r < 0.30:
            ops.append(f"lsub c{rng.randint(1, 3)} {rng.choice(topics)}")
        elif r < 0.45:
            ops.append(f"lunsub c{rng.randint(1, 3)} {rng.choice(topics)}")
        elif r < 0.57:
            ops.append(f"pub t/{rng.randint(1, 3)} {rng.randint(1, 9)}")
        elif r < 0.60:
            ops.append(f"retain r/{rng.randint(1, 2)} {rng.randint(1, 5)}")
        elif r < 0.70:
            ops.append(f"cut-after-send {rng.randint(0, 3)}")      # the (n+1)-th Send from now on fails, connection lost
        elif r < 0.80:
            ops.append(f"cut-before-ack {rng.randint(0, 3)}")       # R applies, the (n+1)-th ack cannot be sent
        elif r < 0.84:
            ops.append("cut-open")                                  # Hello succeeds, opening the stream fails once
        elif r < 0.88:
            ops.append("break")
        elif r < 0.94:
            if lost_hello and rng.random() < 0.7:
                ops.append("cut-hello-resp")                        # R processes the next Hello, the response is lost
            elif rng.random() < 0.1:
                ops.append("cut-hello-req")                         # the next Hello does not reach R
            if rng.random() < 0.5:
                ops.append(racing_hook())
            ops.append(rng.choice(["peer-restart", "sender-restart"]))
        else:
            ops.append("settle")
    ops.append("settle")
    return ops

SIM = re.compile(r"n=(\d+) applied=(\d+) order=(\S+) view=\[(.*?)\] local=\[(.*?)\] pubs=(\d+)$")

def pred_sim(ops, out):
    """whenever the stream has been stable (every op waits for quiescence once `connect` was issued): the receiver's view of S's
    subscriptions equals S's local topic set, and within the receiver's current session the applied events are exactly the
    events S emitted for it — each once, in emission order."""
    if len(out) != len(ops) or (out and out[0].startswith("CRASH")):
        return "implementation crashed or hung: " + (out[0] if out else "")
    connected = False
    for op, o in zip(ops, out):
        if o in ("panic", "bad-op") or o.startswith("hang") or o.startswith("panic"):
            return f"`{op}` -> {o}"
        if op == "new":
            connected = False
        if op == "connect":
            connected = True
        m = SIM.match(o)
        if not m:
            if o in ("ok", "armed"):
                continue
            return f"`{op}` -> unparsable `{o}`"
        if not connected:
            continue
        if m.group(3) != "ok":
            return f"after `{op}`: the receiver's applied log is not a duplicate-free in-order prefix of what the sender emitted"
        if m.group(1) != m.group(2):
            return f"after `{op}` and a stable stream: {m.group(2)} events applied in this session, {m.group(1)} emitted"
        if m.group(4) != m.group(5):
            return (f"after `{op}` and a stable stream the receiver's view [{m.group(4)}] differs from the sender's local "
                    f"subscription set [{m.group(5)}]")
    return None

def nontriv_sim(ops, out):
    """a fault (cut after send / before ack / at open / break / restart / hook racing with a clean start) followed by further emitted events"""
    cut = False
    for op in ops:
        if op.startswith("cut-") or op.startswith("at-clear") or op.startswith("after-clear") or op in ("break", "peer-restart", "sender-restart"):
            cut = True
        elif cut and (op.startswith("lsub") or op.startswith("pub")):
            return True
    return False

RECOGNISERS = {}

def streams(tier):
    k = 1 if tier == "quick" else 20
    return [
        (core.Stream("fedqueue", "fedqueue", gen_queue, pred_queue, nontriv_queue, keep_prefix=1), 4000 * k),
        (core.Stream("fedsession", "fedsession", gen_session, pred_session, nontriv_session, keep_prefix=1), 4000 * k),
        (core.Stream("fedsession-shared", "fedsession", lambda rng: gen_session(rng, True), pred_session, nontriv_session, keep_prefix=1), 300 * k),
        (core.Stream("localsubs", "localsubs", gen_local, pred_local, nontriv_local, keep_prefix=1), 4000 * k),
        (core.Stream("fedsim", "fedsim", gen_sim, pred_sim, nontriv_sim, keep_prefix=1, timeout=150), 400 * k),
    ]

def extra(r):
    """readable form of the FedSource theorems: which transcribed function of plugin/federation changed"""
    import os, re as _re
    try:
        gen = open(os.path.join(core.LEAN, "GmqttVerif", "Generated", "FedFuncs.lean")).read()
        exp = open(os.path.join(core.LEAN, "GmqttVerif", "Properties", "FedSource.lean")).read()
    except OSError:
        return
    names = _re.findall(r'"([^"]+)"', _re.search(r"def fedFuncNames : List String :=\s*\n\s*\[(.*?)\]\n", gen, _re.S).group(1))
    got = _re.search(r"def fedFuncsH : List Nat :=\s*\n\s*\[(.*?)\]", gen, _re.S).group(1).split(", ")
    want = dict((n, h) for h, n in _re.findall(r"(\d+)\s+/- ([\w.]+) -/", exp))
    changed = [n for n, h in zip(names, got) if want.get(n) != h]
    if changed:
        body = ("# the body of these functions of plugin/federation is no longer the text the federation models transcribe\n"
                "# (Properties/FedSource.lean); the streams run them in lock-step only, so orderings inside them that matter under\n"
                "# concurrency are not observed: re-read the model against the new text\n" + "".join(f"# changed: {n}\n" for n in changed))
        r.violation("fed-source", body, False, "transcribed federation functions changed: " + ", ".join(changed))

    resync_extra(r)

def resync_extra(r):
    """model-side search for source_resync_order: when initStream no longer clears the queue BEFORE it takes the snapshot of the local
    topics, Model/ResyncRace.lean has a schedule on which the peer never learns of a subscription"""
    import os, re as _re
    try:
        gen = open(os.path.join(core.LEAN, "GmqttVerif", "Generated", "FedResync.lean")).read()
    except OSError:
        return
    m = _re.search(r"def resyncOrderN : List Nat :=\s*\n\s*\[(.*?)\]", gen)
    codes = [int(x) for x in m.group(1).split(",") if x.strip()] if m else []
    if codes[:4] == [1, 2, 3, 4] and all(c in (5, 6) for c in codes[4:]):
        return
    where = _re.search(r"def resyncOrder : List String :=\s*\n\s*(\[.*?\])\n", gen, _re.S)
    snap_first = 1 in codes and any(c in (3, 9) for c in codes[:codes.index(1)])
    body = ("# plugin/federation/peer.go initStream: the clean-start resynchronisation is no longer `queue.clear(); Lock; queue a Subscribe per\n"
            f"# local topic; Unlock` (Generated/FedResync.lean resyncOrder = {where.group(1) if where else codes}).\n")
    if snap_first:
        body += ("# Something that may be the snapshot of the local topics now comes BEFORE the queue is cleared. Schedule of\n"
                 "# Model/ResyncRace.lean (theorem snapshot_first_can_lose) after which the node has a local subscriber, nothing is in flight, and the\n"
                 "# peer — replaying the queue on its emptied state — does not know the topic, so matching messages published there are not forwarded:\n"
                 "#stream resync-race-schedule\n"
                 "resync      # initStream (peer goroutine): snapshot of localSubStore.topics — the topic is not there\n"
                 "upd true    # a client's SUBSCRIBE: OnSubscribedWrapper updates localSubStore (0 -> 1)\n"
                 "emit        # the same hook queues the Subscribe event for the peer\n"
                 "resync      # initStream: p.queue.clear() — the event is gone\n"
                 "resync      # initStream: queues the snapshot — no Subscribe for the topic\n")
        r.violation("resync-race", body, True, "initStream takes the snapshot of the local topics before it clears the queue (losing schedule in the replay)")
    else:
        r.violation("resync-order", body + "# the order is not one the model understands; re-read Model/ResyncRace.lean against the new text\n", False,
                    "the order of the clean-start resynchronisation changed")

def run(r):
    return core.standard_run(r, __import__(__name__, fromlist=["x"]))

RULE = ("fedqueue: random add/fetch/ack/setpos/clear/close/open histories on the real eventQueue (protocol-conformant and wild, "
        "batches around the 100-event fetch limit), exact comparison of results and of the dumped list/cursor/nextID; "
        "fedsession: join/fail/hello/open/ev/break histories on the real sessionMgr + Hello + EventStream loop + eventStreamHandler "
        "(conformant senders with re-sends after lost acks, adversarial ids incl. ones older than the 100-entry LRU), exact comparison incl. "
        "LRU summary, federation tree, retained store, publish log; localsubs: sub/unsub/terminate through the real hook wrappers, "
        "emitted events read back from the real peer queues; fedsim: two real Federation values connected by the real "
        "initStream/serve/EventStream loops over an in-memory stream with cuts after the n-th send, before the n-th ack, at stream open, "
        "after Hello processing (answer lost), before Hello reaches the peer, peer and sender restarts, and subscribe/unsubscribe hooks injected into the clean start at the entry of queue.clear() and right after it; the oracle executes the protocol transition system the theorems are about. non-trivial = fedqueue: a reconnect moves the cursor back and a fetch re-sends; "
        "fedsession: a resumed session re-receives an applied event; localsubs: a shared reference count goes 2→1 silently then 1→0 with an event; "
        "fedsim: a cut followed by further events")
ASSUME = ["one live stream per (sender, receiver) pair at a time: a node says Hello only after its previous stream has ended on both sides "
          "(two concurrent server-side streams for one session are not modelled; C15)",
          "session ids (uuid) are never reused",
          "each eventQueue / sessionMgr / localSubStore method is atomic (they hold their mutex); since 1808d86 a hook holds memberMu across "
          "the localSubStore update and the queue.add calls, so one hook call is one model step (before: findings/c16-hook-order-race.md, "
          "stress probe harness/cmd/probe_fedrace)",
          "the federation subscription tree is modelled by its specification (set of node×share×filter); stream fedsession-shared compares it with "
          "the real mem.TrieDB under clean starts / node failures with shared entries (F19, fixed in a8278d7)",
          "gRPC delivers stream messages in order and reports a broken connection as an error from Send/Recv; serf membership is an input"]
