"""C17 — federation routing: forwarded to exactly the nodes that need it (sendMessage / sendSharedMsg), receiver does not re-forward,
retained broadcast + remote retained update (F35), share groups spanning nodes (F36)."""
import re
from .. import core

PROP = "C17"
MODULE = "GmqttVerif.Properties.C17"
THEOREMS = [
    "GmqttVerif.FedSource.routing_functions_as_transcribed",
    "GmqttVerif.Fed.route_nonretained_exact",
    "GmqttVerif.Fed.route_retained_all",
    "GmqttVerif.Fed.receiver_no_reforward",
    "GmqttVerif.Fed.received_message_published_once",
    "GmqttVerif.Fed.federation_delivery_exact",
    "GmqttVerif.Fed.shared_one_in_federation_refuted",
    "GmqttVerif.Fed.shared_lost_refuted",
    "GmqttVerif.Fed.shared_one_in_federation_partial",
    "GmqttVerif.Fed.remote_retained_clear",
    "GmqttVerif.Fed.remote_retained_clear_as_is_refuted",
    "GmqttVerif.Fed.remote_retained_set",
]
THEOREMS += ["GmqttVerif.ResyncRace.resync_restores_equality", "GmqttVerif.ResyncRace.resync_restores_equality_quiet",
             "GmqttVerif.ResyncRace.snapshot_first_can_lose", "GmqttVerif.ResyncRace.source_resync_order"]
EXTRA_MODULES = ["GmqttVerif.Properties.FedSource", "GmqttVerif.Properties.FedResync"]
NEEDS_FACTS = ["FedFuncs", "FedResync"]
COMPS = ["fedroute", "fedsession"]

LEVELS = ["a", "b", "+", "#"]
TOPICS = ["a", "b", "a/b", "a/a", "b/a", "a/b/a", "$SYS/a", "$SYS/a/b"]

def gen_filter(rng):
    r = rng.random()
    if r < 0.12:
        return rng.choice(["$SYS/#", "$SYS/a", "$SYS/+", "$SYS/a/#"])
    n = rng.choice([1, 1, 2, 2, 3])
    lv = []
    for i in range(n):
        x = rng.choice(LEVELS)
        if x == "#" and i != n - 1:
            x = "+"
        lv.append(x)
    return "/".join(lv)

def gen_route(rng, shared=False):
    ops = ["new A"]
    peers = ["B", "C", "D"][: rng.choice([1, 2, 3, 3])]
    nodes = peers + (["E"] if rng.random() < 0.1 else [])      # E: entries in the tree without a queue
    for p in peers:
        ops.append(f"peer {p}")
    if rng.random() < 0.1:
        ops.append("peer A")                                   # nodeJoin skips the local node
    fed, loc = [], []
    def share():
        return rng.choice(["g", "h"]) if shared and rng.random() < 0.5 else "-"
    for _ in range(rng.randint(0, rng.choice([3, 8, 16]))):
        r = rng.random()
        if r < 0.45:
            e = (rng.choice(nodes), share(), gen_filter(rng)); fed.append(e)
            ops.append(f"fsub {e[0]} {e[1]} {e[2]}")
        elif r < 0.55 and fed:
            e = rng.choice(fed)
            ops.append(f"funsub {e[0]} {e[2] if e[1] == '-' else '$share/' + e[1] + '/' + e[2]}")
        elif r < 0.70:
            e = (rng.choice(["c1", "c2", "c3"]), share(), gen_filter(rng)); loc.append(e)
            ops.append(f"lsub {e[0]} {e[1]} {e[2]}")
        elif r < 0.75 and loc:
            e = rng.choice(loc)
            ops.append(f"lunsub {e[0]} {e[2] if e[1] == '-' else '$share/' + e[1] + '/' + e[2]}")
        elif r < 0.80 and shared:
            ops.append(f"cnt $share/{rng.choice(['g', 'h'])}/{gen_filter(rng)} {rng.randint(0, 7)}")
        else:
            t = rng.choice(TOPICS) if rng.random() < 0.97 else "-"
            ops.append(f"pub {t} {1 if rng.random() < 0.15 else 0}")
    for _ in range(rng.randint(1, 4)):
        ops.append(f"pub {rng.choice(TOPICS)} {1 if rng.random() < 0.1 else 0}")
    if len(peers) >= 2 and rng.random() < 0.5:
        # bring the peers' outgoing queues to different positions, broadcast a retained message, continue
        p1 = rng.choice(peers)
        t = rng.choice(["a", "b", "a/b"])
        ops.append(f"fsub {p1} - {t}")
        for _ in range(rng.randint(1, 3)):
            ops.append(f"pub {t} 0")
        ops.append(f"pub {rng.choice(TOPICS)} 1")
        ops.append(f"pub {t} 0")
        ops.append(f"pub {rng.choice(TOPICS)} 1")
    if rng.random() < 0.15:
        # a Message event received from a peer, through the real EventStream loop into the Publisher of a real server value
        # (sender = a peer without entries in the tree: its Hello is a clean start, which clears the sender's entries)
        ops.append("peer Z")
        ops.append(f"recvpub Z {rng.choice(TOPICS)} {rng.choice([0, 1])}")
        ops.append(f"pub {rng.choice(TOPICS)} 0")
    return _dupflags(rng, ops)

def mqtt_match(flt, topic):
    """MQTT 4.7, written from the standard"""
    fl, tl = flt.split("/"), topic.split("/")
    if topic.startswith("$") and fl[0] in ("+", "#"):
        return False
    for i, f in enumerate(fl):
        if f == "#":
            return i == len(fl) - 1
        if i >= len(tl):
            return False
        if f != "+" and f != tl[i]:
            return False
    return len(fl) == len(tl)

OUT = re.compile(r"targets=\[(.*?)\] drop=([01]) nso=([01]) cnt=\[(.*?)\] qs=\[(.*?)\]$")

def split_topic(t):
    if t.startswith("$share/"):
        p = t.split("/", 2)
        return (p[1], p[2]) if len(p) == 3 else ("-", "")
    return ("-", t)

def _dupflags(rng, ops):
    """some publishes arrive with DUP=1 (a client retransmission the broker sees for the first time): routed like any other"""
    res = []
    for o in ops:
        k = rng.random()
        # `wpub`: the message is a will, published through OnWillPublishWrapper (same routing decision)
        res.append(("pubd " + o[4:]) if o.startswith("pub ") and k < 0.2 else ("wpub " + o[4:]) if o.startswith("pub ") and k < 0.35 else o)
    return res

def pred_route(ops, out, check_groups=False):
    ops = [("pub " + o[5:]) if o.startswith(("pubd ", "wpub ")) else o for o in ops]
    """retained ⇒ every peer exactly once; non-retained, no shared subscription anywhere ⇒ exactly the peers holding ≥1 matching
    subscription, once each, never the local node, local delivery untouched (drop=0, options unchanged). With shared
    subscriptions: targets are distinct peers each holding a matching entry, every peer with a matching NON-shared entry is a
    target; with check_groups also: every matching share group is served by exactly one node of the federation (F36)."""
    if len(out) != len(ops) or (out and out[0].startswith("CRASH")):
        return "implementation crashed or hung: " + (out[0] if out else "")
    peers, fed, loc = [], set(), set()
    queued = {}           # peer -> topics of the messages put into its queue, in order
    for op, o in zip(ops, out):
        if o in ("panic", "bad-op", "err", "wrong-event", "odd-options", "hang") or o.startswith("err-"):
            return f"`{op}` -> {o}"
        f = op.split()
        if f[0] == "new":
            peers, fed, loc, queued = [], set(), set(), {}
        elif f[0] == "peer":
            if f[1] != "A" and f[1] not in peers:
                peers.append(f[1]); queued[f[1]] = []
        elif f[0] == "fsub":
            fed.add((f[1], f[2], f[3]))
        elif f[0] == "funsub":
            fed.discard((f[1],) + split_topic(f[2]))
        elif f[0] == "lsub":
            loc.add((f[1], f[2], f[3]))
        elif f[0] == "lunsub":
            loc.discard((f[1],) + split_topic(f[2]))
        elif f[0] == "recvpub":
            if o != "hookcalls=0 queued=0":
                return f"`{op}`: a message received from a peer was forwarded again / re-entered OnMsgArrived: {o}"
        elif f[0] == "pub":
            m = OUT.match(o)
            if not m:
                return f"unparsable `{o}`"
            targets = [x for x in m.group(1).split(",") if x]
            drop, nso = m.group(2) == "1", m.group(3) == "1"
            topic = f[1]
            # what each peer will see on the wire: its own consecutive event ids, every message routed to it, in order
            for t in targets:
                if t in queued:
                    queued[t].append(topic)
            got = dict((x.split("=")[0], [y for y in x.split("=", 1)[1].split(",") if y]) for x in m.group(5).split(";") if x)
            for p in peers:
                want = [f"{i}:{tp}" for i, tp in enumerate(queued[p])]
                if got.get(p) != want:
                    return (f"`{op}`: the outgoing queue of peer {p} holds {got.get(p)}; it must hold the messages routed to it under "
                            f"its own consecutive event ids {want}")
            if "A" in targets:
                return f"`{op}` forwarded to the local node itself"
            if len(set(targets)) != len(targets):
                return f"`{op}` put the message twice into the queue of a peer: {targets}"
            if any(t not in peers for t in targets):
                return f"`{op}` targets {targets} include a non-peer"
            if f[2] == "1":
                if targets != sorted(peers) or drop or nso:
                    return f"`{op}` (retained) went to {targets} drop={drop}; must go to all peers {sorted(peers)} and be delivered locally"
                continue
            if topic == "-":
                continue            # empty topic name (F18): model comparison only
            has_shared = any(e[1] != "-" for e in fed) or any(e[1] != "-" for e in loc)
            need = sorted(set(n for (n, sh, fl) in fed if sh == "-" and n in peers and mqtt_match(fl, topic)))
            if not has_shared:
                if targets != need:
                    return f"`{op}` forwarded to {targets}; exactly the peers with a matching subscription are {need}"
                if drop or nso:
                    return f"`{op}` altered the local delivery (drop={drop}, nonSharedOnly={nso}) without any shared subscription"
                continue
            if any(n not in targets for n in need):
                return f"`{op}` did not reach {sorted(set(need) - set(targets))} which hold a matching non-shared subscription"
            for t in targets:
                if not any(n == t and mqtt_match(fl, topic) for (n, sh, fl) in fed):
                    return f"`{op}` forwarded to {t} which holds no matching subscription"
            if check_groups:
                groups = set((sh, fl) for (_, sh, fl) in list(fed) + list(loc) if sh != "-" and mqtt_match(fl, topic))
                local_nonshared = any(sh == "-" and mqtt_match(fl, topic) for (_, sh, fl) in loc)
                if drop and local_nonshared:
                    return f"`{op}` drops the message locally although a local non-shared subscription matches"
                for (sh, fl) in sorted(groups):
                    served = 0
                    if any(e[1] == sh and e[2] == fl for e in loc) and not drop and not nso:
                        served += 1
                    served += sum(1 for t in targets if (t, sh, fl) in fed)
                    reachable = any(e[1] == sh and e[2] == fl for e in loc) or any((p, sh, fl) in fed for p in peers)
                    if reachable and served != 1:
                        return (f"`{op}`: share group $share/{sh}/{fl} is served by {served} node(s) of the federation "
                                f"(targets {targets}, drop={drop}, nonSharedOnly={nso}); must be exactly one (F36)")
    return None

def nontriv_route(ops, out):
    """a non-retained publish that is forwarded to some but not all peers"""
    npeers = sum(1 for op in ops if op.startswith("peer ") and op != "peer A")
    for op, o in zip(ops, out):
        m = OUT.match(o) if op.startswith("pub") and op.endswith(" 0") else None
        if m:
            k = len([x for x in m.group(1).split(",") if x])
            if 0 < k < npeers:
                return True
    return False

# ------------------------------------------------------------------ receiver: retained update + no re-forward (drive_fedsession)

def gen_recv(rng):
    ops = ["new A", "join B", "join C", "hello B 1", "open B"]
    i, sid = 0, 1
    for _ in range(rng.randint(1, 6)):
        t = rng.choice(["t/1", "t/2", "$SYS/x"])
        ops.append(f"ev B {i} 1 msg {t} {rng.choice([0, 1, 1])} {rng.choice([0, 0, 1, 2])} {rng.choice([0, 1])}")
        i += 1
        if rng.random() < 0.3:
            ops.append("dump")
        if rng.random() < 0.25:
            # the sending node restarted (new session id) before anybody declared it failed: full resync, ids from 0
            sid += 1; i = 0
            ops += [f"hello B {sid}", "open B"]
    ops.append("dump")
    return ops

def pred_recv(ops, out):
    """a received Message is handed to the publisher exactly once; a retained one with payload replaces the stored message of its
    topic, a retained one with EMPTY payload removes it (as on the node where it was published); non-retained ones leave the
    retained store alone."""
    if len(out) != len(ops) or (out and out[0].startswith("CRASH")):
        return "implementation crashed or hung: " + (out[0] if out else "")
    store = {}
    # (a new session id means a new session: its events, numbered from 0 again, are all new)
    for op, o in zip(ops, out):
        if o in ("panic", "hang", "bad-op"):
            return f"`{op}` -> {o}"
        f = op.split()
        if f[0] == "ev" and f[4] == "msg":
            if o.count(" pub=") != 1:
                return f"`{op}` published {o.count(' pub=')} times"
            if f[6] == "1":
                if f[7] == "0":
                    store.pop(f[5], None)
                else:
                    store[f[5]] = f[7]
        elif f[0] == "dump":
            m = re.search(r"retained=\[(.*?)\]", o)
            got = dict(x.split("=") for x in m.group(1).split(";") if x)
            if got != store:
                bad = sorted(k for k in got if k not in store)
                return (f"retained store {got} differs from {store}"
                        + (f": the remote clear of {bad} was stored as an empty retained message (F35)" if bad and all(got[k] == '0' for k in bad) else ""))
    return None

def rec_f36(info):
    return "F36" in (info.get("why") or "")

RECOGNISERS = {"f36": rec_f36}

def streams(tier):
    k = 1 if tier == "quick" else 20
    return [
        (core.Stream("fedroute", "fedroute", gen_route, pred_route, nontriv_route, keep_prefix=1), 6000 * k),
        (core.Stream("fedroute-shared", "fedroute", lambda rng: gen_route(rng, True), pred_route, nontriv_route, keep_prefix=1), 6000 * k),
        (core.Stream("fedroute-groups", "fedroute", lambda rng: gen_route(rng, True),
                     lambda ops, out: pred_route(ops, out, True), nontriv_route, keep_prefix=1), 500 * k),
        (core.Stream("fedrecv-retained", "fedsession", gen_recv, pred_recv, lambda ops, out: any(" 1 0 " in op for op in ops), keep_prefix=5), 300 * k),
    ]

def extra(r):
    """readable form of the FedSource theorems: which transcribed function of plugin/federation changed"""
    import os, re as _re
    try:
        gen = open(os.path.join(core.LEAN, "GmqttVerif", "Generated", "FedFuncs.lean")).read()
        exp = open(os.path.join(core.LEAN, "GmqttVerif", "Properties", "FedSource.lean")).read()
    except OSError:
        return
    names = _re.findall(r'"([^"]+)"', _re.search(r"def fedFuncNames : List String :=\s*\n\s*\[(.*?)\]\n", gen, _re.S).group(1))
    got = _re.search(r"def fedFuncsH : List Nat :=\s*\n\s*\[(.*?)\]", gen, _re.S).group(1).split(", ")
    want = dict((n, h) for h, n in _re.findall(r"(\d+)\s+/- ([\w.]+) -/", exp))
    changed = [n for n, h in zip(names, got) if want.get(n) != h]
    if changed:
        body = ("# the body of these functions of plugin/federation is no longer the text the federation models transcribe\n"
                "# (Properties/FedSource.lean); the streams run them in lock-step only, so orderings inside them that matter under\n"
                "# concurrency are not observed: re-read the model against the new text\n" + "".join(f"# changed: {n}\n" for n in changed))
        r.violation("fed-source", body, False, "transcribed federation functions changed: " + ", ".join(changed))

    resync_extra(r)

def resync_extra(r):
    """model-side search for source_resync_order: when initStream no longer clears the queue BEFORE it takes the snapshot of the local
    topics, Model/ResyncRace.lean has a schedule on which the peer never learns of a subscription"""
    import os, re as _re
    try:
        gen = open(os.path.join(core.LEAN, "GmqttVerif", "Generated", "FedResync.lean")).read()
    except OSError:
        return
    m = _re.search(r"def resyncOrderN : List Nat :=\s*\n\s*\[(.*?)\]", gen)
    codes = [int(x) for x in m.group(1).split(",") if x.strip()] if m else []
    if codes[:4] == [1, 2, 3, 4] and all(c in (5, 6) for c in codes[4:]):
        return
    where = _re.search(r"def resyncOrder : List String :=\s*\n\s*(\[.*?\])\n", gen, _re.S)
    snap_first = 1 in codes and any(c in (3, 9) for c in codes[:codes.index(1)])
    body = ("# plugin/federation/peer.go initStream: the clean-start resynchronisation is no longer `queue.clear(); Lock; queue a Subscribe per\n"
            f"# local topic; Unlock` (Generated/FedResync.lean resyncOrder = {where.group(1) if where else codes}).\n")
    if snap_first:
        body += ("# Something that may be the snapshot of the local topics now comes BEFORE the queue is cleared. Schedule of\n"
                 "# Model/ResyncRace.lean (theorem snapshot_first_can_lose) after which the node has a local subscriber, nothing is in flight, and the\n"
                 "# peer — replaying the queue on its emptied state — does not know the topic, so matching messages published there are not forwarded:\n"
                 "#stream resync-race-schedule\n"
                 "resync      # initStream (peer goroutine): snapshot of localSubStore.topics — the topic is not there\n"
                 "upd true    # a client's SUBSCRIBE: OnSubscribedWrapper updates localSubStore (0 -> 1)\n"
                 "emit        # the same hook queues the Subscribe event for the peer\n"
                 "resync      # initStream: p.queue.clear() — the event is gone\n"
                 "resync      # initStream: queues the snapshot — no Subscribe for the topic\n")
        r.violation("resync-race", body, True, "initStream takes the snapshot of the local topics before it clears the queue (losing schedule in the replay)")
    else:
        r.violation("resync-order", body + "# the order is not one the model understands; re-read Model/ResyncRace.lean against the new text\n", False,
                    "the order of the clean-start resynchronisation changed")

def run(r):
    return core.standard_run(r, __import__(__name__, fromlist=["x"]))

RULE = ("fedroute: random federation trees (1-3 peers + occasionally a node without queue; filters over levels a,b,+,# and $SYS; optional share "
        "groups g,h on both the federation tree and the local store; round-robin counters preset), publishes of retained/non-retained messages "
        "entered through the real OnMsgArrivedWrapper → sendMessage with real mem.TrieDB stores and real peer eventQueues; targets are read back "
        "from the queues (one entry per queue.add), drop/options from the MsgArrivedRequest; compared exactly with Fed.route. The predicate "
        "re-derives the expected node set with an independent MQTT matcher. fedroute-groups additionally counts, per matching share group, the "
        "nodes of the federation that will serve it (F36). fedrecv-retained: Message events through the real EventStream loop, retained store "
        "compared with last-value-per-topic semantics (F35). non-trivial = a publish forwarded to a proper non-empty subset of the peers")
ASSUME = ["matching is Topic.MatchesTopic (Model/Topic.lean; C02 matchTopic_exact ties it to mem.TrieDB), wrapped by Fed.subMatches only for the empty topic name",
          "federation_delivery_exact: messageToEvent/eventToMessage preserve the message; each queued Message event is applied by the peer exactly once (C16)",
          "topic names of published messages are valid (no wildcard levels); the empty topic name is compared with the model only (F18)",
          "the receiving node serves each of its matching local share groups once and each non-shared subscriber once (C01/C11 on Publisher.Publish)",
          "Publisher.Publish does not invoke OnMsgArrived (server/publish_service.go calls deliverMessage directly) — structural, see receiver_no_reforward",
          "the federation tree content equals the set of entries added/removed through Subscribe/Unsubscribe (no UnsubscribeAll in these streams; F19)"]
