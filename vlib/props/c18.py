"""C18 — WebSocket transport (`wsConn` in server/server.go) delivers the exact byte stream of the binary messages."""
from .. import core

PROP = "C18"
MODULE = "GmqttVerif.Properties.C18"
THEOREMS = ["GmqttVerif.WsSource.ws_adapter_as_transcribed", "GmqttVerif.WsConn.ws_stream_exact", "GmqttVerif.WsConn.ws_stream_exact_fails_as_is",
            "GmqttVerif.WsConn.as_is_drops_last_byte", "GmqttVerif.WsConn.ws_text_rejected",
            "GmqttVerif.WsConn.ws_text_never_in_stream", "GmqttVerif.WsConn.ws_write_concat"]
COMPS = ["wsconn", "wsecho"]
NEEDS_FACTS = ["WsFuncs"]

MSG_SIZES = [0, 1, 1, 2, 2, 3, 5, 17, 1023, 1024, 1025, 2047, 2048, 2049]
READ_SIZES = [1, 2, 3, 7, 1023, 1024, 1024, 1025, 2047, 2048, 2049, 4096]


def stream_byte(k):
    """position-dependent content: a dropped / duplicated / reordered byte shifts everything behind it"""
    return (k * 7 + (k // 251) * 13 + 3) % 256


def hx(b):
    return bytes(b).hex() if b else "-"


class Sim:
    """wsConn.Read with reset condition `r + slack >= len(buf)`; only used by the generator to avoid reads that would block"""
    def __init__(self, slack):
        self.slack, self.buf, self.r, self.next = slack, None, 0, 0

    def has_data(self, msgs):
        return self.buf is not None or self.next < len(msgs)

    def read(self, msgs, n):
        if self.buf is None:
            if self.next >= len(msgs):
                return
            kind, b = msgs[self.next]
            self.next += 1
            if kind == "t":
                return
            self.buf = b
        c = min(n, len(self.buf) - self.r)
        self.r += c
        if self.r + self.slack >= len(self.buf):
            self.buf, self.r = None, 0


def gen(rng):
    ops = ["new"]
    msgs = []                       # (kind, bytes) in send order
    sims = [Sim(0), Sim(1)]
    pos = [0]
    style = rng.choice(["edge", "edge", "tiny", "many-small", "big-reads", "bufio", "random"])

    def msg_size():
        if style == "tiny":
            return rng.choice([0, 1, 1, 2, 2, 3, 4, 5])
        if style == "many-small":
            return rng.choice([1, 1, 1, 2, 3])
        if style == "random":
            return rng.randint(0, 3000) if rng.random() < 0.5 else rng.randint(0, 12)
        return rng.choice(MSG_SIZES)

    def read_size():
        if style == "tiny":
            return rng.choice([1, 1, 2, 3])
        if style == "many-small":
            return rng.choice([1024, 1024, 64, 4096])
        if style == "big-reads":
            return rng.choice([4096, 8192, 2049])
        if style == "bufio":
            return 1024
        if style == "random":
            return rng.randint(1, 3000) if rng.random() < 0.5 else rng.randint(1, 12)
        return rng.choice(READ_SIZES)

    def send():
        if rng.random() < 0.04:
            b = [rng.randrange(256) for _ in range(rng.choice([0, 1, 3]))]
            msgs.append(("t", b))
            ops.append("msg t " + hx(b))
            return
        n = msg_size()
        b = [stream_byte(pos[0] + i) for i in range(n)]
        pos[0] += n
        msgs.append(("b", b))
        ops.append("msg b " + hx(b))

    def read(closed):
        """a read is only issued when neither the as-is nor the patched algorithm would block on it"""
        if not closed and not all(s.has_data(msgs) for s in sims):
            return False
        n = read_size()
        ops.append(f"read {n}")
        for s in sims:
            s.read(msgs, n)
        return True

    n_msgs = rng.choice([1, 1, 2, 3, 5, 12]) if style != "many-small" else rng.choice([10, 30, 60])
    interleave = rng.random() < 0.5
    budget = 160
    for _ in range(n_msgs):
        send()
        if rng.random() < 0.1:
            wb = [rng.randrange(256) for _ in range(rng.choice([0, 1, 2, 100, 1024, 1025]))]
            ops.append("write " + hx(wb))
        if interleave:
            for _ in range(rng.choice([0, 1, 1, 2, 4])):
                if budget > 0 and read(False):
                    budget -= 1
    ops.append("close")
    # drain: until the patched algorithm has handed out everything, then two more reads (end of stream)
    while budget > 0 and sims[0].has_data(msgs):
        read(True)
        budget -= 1
    if not sims[0].has_data(msgs):
        ops += [f"read {read_size()}", f"read {read_size()}"]
    return ops


def unhx(s):
    return b"" if s == "-" else bytes.fromhex(s)


def is_hex(s):
    return s == "-" or (len(s) % 2 == 0 and all(c in "0123456789abcdef" for c in s))


def predicate(ops, out):
    """the property, evaluated on what the real wsConn returned. returns None or a reason."""
    if len(out) != len(ops) or (out and out[0].startswith("CRASH")):
        return "implementation crashed or hung: " + (out[0] if out else "")
    sent = b""            # concatenation of the binary payloads sent so far
    got = b""             # concatenation of the chunks Read returned so far
    n_text = n_err = n_empty_msgs = n_empty_reads = 0
    closed = False
    for op, o in zip(ops, out):
        f = op.split()
        if o in ("panic", "bad-op") or o.startswith("err-") or o.startswith("eof+"):
            return f"unexpected result `{o}` for `{op}`"
        if f[0] == "new":
            sent, got, n_text, n_err, n_empty_msgs, n_empty_reads, closed = b"", b"", 0, 0, 0, 0, False
        elif f[0] == "msg":
            if f[1] == "b":
                sent += unhx(f[2])
                n_empty_msgs += f[2] == "-"
            else:
                n_text += 1
        elif f[0] == "close":
            closed = True
        elif f[0] == "read":
            n = int(f[1])
            if o == "err":
                n_err += 1
                if n_err > n_text:
                    return f"`{op}` reported a message-type error but only {n_text} text message(s) were sent"
            elif o == "eof":
                if not closed:
                    return f"`{op}` failed although the peer has not closed"
                if got != sent:
                    return (f"`{op}` reports end of stream after {len(got)} of {len(sent)} bytes: "
                            f"{len(sent)-len(got)} byte(s) of the binary messages were never delivered")
                if n_err != n_text:
                    return f"end of stream after {n_err} type errors for {n_text} text messages"
            elif o == "blocked":
                if len(got) < len(sent) or n_err < n_text or closed:
                    return (f"`{op}` blocked although {len(sent)-len(got)} byte(s) of already received messages "
                            f"were still undelivered (delivered {len(got)} of {len(sent)})")
                return None       # reading with nothing pending: outside the quantifier (only reached while shrinking)
            elif is_hex(o):
                c = unhx(o)
                if len(c) > n:
                    return f"`{op}` returned {len(c)} bytes"
                if not c:
                    n_empty_reads += 1
                    if n > 0 and n_empty_reads > n_empty_msgs:
                        return f"`{op}` returned no bytes and no error, and it is not accounted for by an empty message"
                if sent[len(got):len(got) + len(c)] != c:
                    exp = sent[len(got):len(got) + len(c)]
                    k = next((i for i in range(len(c)) if i >= len(exp) or exp[i] != c[i]), 0)
                    return (f"`{op}` returned bytes that are not the next bytes of the stream: at stream offset "
                            f"{len(got)+k} expected {exp[k:k+4].hex() or '<end>'} got {c[k:k+4].hex()} "
                            f"(a byte was dropped, duplicated or reordered)")
                got += c
            else:
                return f"unparsable result `{o}` for `{op}`"
        elif f[0] == "write":
            want = f"b:{f[1]} n={len(unhx(f[1]))}"
            if o != want:
                return f"`{op}`: the peer received `{o}`, expected `{want}` (one binary message carrying the written bytes)"
    return None


def nontrivial(ops, out):
    """some Read stops strictly inside a message (the message is delivered by two or more reads) or packs nothing but
    whole small messages one per read while more are pending; and the stream is read to its end"""
    bounds, total, got, split = {0}, 0, 0, False
    for op, o in zip(ops, out):
        f = op.split()
        if f[0] == "msg" and f[1] == "b":
            total += len(unhx(f[2]))
            bounds.add(total)
        elif f[0] == "read" and is_hex(o):
            got += len(unhx(o))
            if got not in bounds:
                split = True
    return split and "eof" in out


# ---------------------------------------------------------------- end to end: MQTT 3.1.1 session over the real wsHandler


def varint(n):
    out = []
    while True:
        b = n % 128
        n //= 128
        out.append(b | (0x80 if n else 0))
        if not n:
            return out


PAYLOAD_SIZES = [0, 1, 2, 50, 100, 1000, 1017, 1018, 1019, 1020, 2041, 2042, 2043, 2044, 5000]


def gen_echo(rng):
    """one MQTT 3.1.1 session (CONNECT, SUBSCRIBE t, QoS 0 PUBLISHes to t) cut into WebSocket messages.
    `packed` cases run against a broker configured with a SMALL max_packet_size (64 / 128): every MQTT packet is smaller than
    that, but WebSocket messages carry several of them and are longer than it (and exactly limit-1 / limit / limit+1 bytes):
    the limit is about MQTT packets, the segmentation into messages must not matter."""
    cid = [rng.choice(b"abcdefghijklmnop") for _ in range(6)]
    connect = [0x10, 12 + len(cid), 0, 4] + list(b"MQTT") + [4, 2, 0, 0, 0, len(cid)] + cid
    subscribe = [0x82, 6, 0, 1, 0, 1, 0x74, 0]
    packets = [connect, subscribe]
    mp = rng.choice([64, 64, 128]) if rng.random() < 0.4 else 0
    k = 0
    if mp:
        for _ in range(rng.choice([3, 5, 8, 12, 20])):
            n = rng.choice([0, 1, 3, 10, mp // 2, mp - 6, mp - 5]) if rng.random() < 0.7 else rng.randint(0, mp - 5)   # packet <= mp bytes
            body = [0, 1, 0x74] + [stream_byte(k + i) for i in range(n)]
            k += n
            packets.append([0x30] + varint(len(body)) + body)
    else:
        for _ in range(rng.choice([1, 1, 2, 3, 6])):
            n = rng.choice(PAYLOAD_SIZES) if rng.random() < 0.7 else rng.randint(0, 5000)
            body = [0, 1, 0x74] + [stream_byte(k + i) for i in range(n)]
            k += n
            packets.append([0x30] + varint(len(body)) + body)
    stream = [b for p in packets for b in p]
    ends, pos = [], 0
    for p in packets:
        pos += len(p); ends.append(pos)
    if mp:
        style = rng.choice(["one", "fixed", "fixed", "grouped", "grouped", "random", "after-sub"])
    else:
        style = rng.choice(["aligned", "one", "fixed", "fixed", "random", "random", "bytes", "tail1"])
    cuts = []
    if style == "aligned":
        cuts = list(ends)
    elif style == "one":
        cuts = [len(stream)]
    elif style == "fixed":
        sz = rng.choice([mp - 1, mp, mp + 1, 2 * mp, 2 * mp + 1, 3 * mp + 7]) if mp else rng.choice([1023, 1024, 1025, 2047, 2048, 2049, 7, 100])
        cuts = list(range(sz, len(stream), sz)) + [len(stream)]
    elif style == "grouped":     # whole packets, several per message: each message is legal packet by packet and longer than mp
        i = 0
        while i < len(ends):
            i = min(len(ends), i + rng.choice([2, 3, 5, 9]))
            cuts.append(ends[i - 1])
    elif style == "after-sub":   # handshake packet by packet, then all publishes in one message
        cuts = [ends[0], ends[1], len(stream)]
    elif style == "bytes" and len(stream) <= 400:
        cuts = list(range(1, len(stream) + 1))
    elif style == "tail1":      # every message ends one byte after / before a multiple of 1024 from its start, or at a packet end
        pos = 0
        while pos < len(stream):
            pos = min(len(stream), pos + rng.choice([1025, 1025, 1023, 2049, 1, 2]))
            cuts.append(pos)
    else:
        pos = 0
        hi = 4 * mp if mp else 3000
        while pos < len(stream):
            pos = min(len(stream), pos + (rng.randint(1, hi) if rng.random() < 0.6 else rng.randint(1, 10)))
            cuts.append(pos)
    ops = [f"new {mp}" if mp else "new"]
    if rng.random() < 0.03:
        return ops + ["msg t " + hx(connect), "recv 4"]          # a text message instead of the CONNECT: no answer, closed
    resp_at = lambda upto: 4 * (upto >= ends[0]) + 5 * (upto >= ends[1]) + sum(len(p) for p, e in zip(packets[2:], ends[2:]) if upto >= e)
    prev = taken = 0
    for c in cuts:
        ops.append("msg b " + hx(stream[prev:c]))
        if rng.random() < 0.1:
            ops.append("msg b -")
        prev = c
        avail = resp_at(c) - taken
        if avail > 0 and rng.random() < 0.3:
            ops.append(f"recv {avail}")
            taken += avail
    if resp_at(len(stream)) - taken > 0:
        ops.append(f"recv {resp_at(len(stream)) - taken}")
    if rng.random() < 0.05:
        ops.append("quiet")           # nothing more may arrive
    return ops


def expected_response(sent):
    """MQTT 3.1.1: CONNECT -> CONNACK, SUBSCRIBE t -> SUBACK, QoS 0 PUBLISH to t -> the same packet back. sent: bytes so far."""
    out, i, conn, sub = b"", 0, False, False
    while i < len(sent):
        t = sent[i]
        j, mult, ln = i + 1, 1, 0
        while True:
            if j >= len(sent):
                return out
            b = sent[j]; j += 1
            ln += (b & 127) * mult; mult *= 128
            if b < 128:
                break
        if j + ln > len(sent):
            return out
        body = sent[j:j + ln]
        if t == 0x10 and not conn:
            conn = True; out += bytes([0x20, 2, 0, 0])
        elif t == 0x82 and conn:
            sub = True; out += bytes([0x90, 3, body[0], body[1], 0])
        elif t == 0x30 and conn:
            if sub:
                out += sent[i:j + ln]
        else:
            return out
        i = j + ln
    return out


def pred_echo(ops, out):
    if len(out) != len(ops) or (out and out[0].startswith("CRASH")):
        return "implementation crashed or hung: " + (out[0] if out else "")
    sent, taken, text, mp = b"", 0, False, 0
    nmsg = 0
    for op, o in zip(ops, out):
        f = op.split()
        if o in ("bad-op", "text-frame", "panic") or o.startswith("err-"):
            return f"unexpected result `{o}` for `{op}`"
        if f[0] == "new":
            sent, taken, text, nmsg = b"", 0, False, 0
            mp = int(f[1]) if len(f) == 2 else 0
        elif f[0] == "msg":
            nmsg += 1
            if f[1] == "b":
                sent += unhx(f[2])
            else:
                text = True
        elif f[0] in ("recv", "quiet"):
            if text:
                if o != "closed:-":
                    return f"`{op}` after a text message: `{o[:40]}`, expected the connection to be closed without any answer"
                continue
            due = expected_response(sent)[taken:]
            if f[0] == "quiet":
                if o != ("quiet" if not due else due.hex()):
                    return f"`{op}`: {len(due)} more answer bytes are due, got `{o[-60:]}`"
                taken += len(due)
                continue
            n = int(f[1])
            want = due[:n]
            if len(want) < n:
                if o != "timeout:" + (want.hex() or "-"):
                    return f"`{op}`: only {len(want)} more bytes are due, got `{o[-60:]}`"
                taken += len(want)
                continue
            if o != want.hex():
                how, _, got = o.rpartition(":")
                gb = unhx(got) if is_hex(got) else b""
                k = next((i for i in range(len(want)) if i >= len(gb) or gb[i] != want[i]), len(want))
                ended = {"closed": ", then the broker closed the connection", "timeout": ", then nothing more although broker and connection were idle"}.get(how, "")
                cfg = f" (broker max_packet_size={mp}, largest MQTT packet sent is within it)" if mp else ""
                return (f"`{op}`: the broker's answer differs from the MQTT answer to the concatenated payloads at answer offset "
                        f"{taken+k} (got {len(gb)} bytes{ended}): after {len(sent)} stream bytes in {nmsg} WebSocket messages the "
                        f"broker has not processed the exact byte stream{cfg}")
            taken += n
    return None


def nontrivial_echo(ops, out):
    """some WebSocket message boundary falls strictly inside an MQTT packet (or, with a small max_packet_size, some message
    longer than that limit carries two or more packets) and some PUBLISH is echoed"""
    sizes = [len(unhx(o.split()[2])) for o in ops if o.startswith("msg b")]
    sent = b"".join(unhx(o.split()[2]) for o in ops if o.startswith("msg b"))
    ends, i = set(), 0
    while i < len(sent):
        j, mult, ln = i + 1, 1, 0
        while j < len(sent):
            b = sent[j]; j += 1
            ln += (b & 127) * mult; mult *= 128
            if b < 128:
                break
        i = j + ln
        ends.add(i)
    mp = int(ops[0].split()[1]) if len(ops[0].split()) == 2 else 0
    pos, inside = 0, False
    for s_ in sizes:
        if mp and s_ > mp and sum(1 for e in ends if pos < e <= pos + s_) >= 2:
            inside = True
        pos += s_
        if pos not in ends and pos < len(sent):
            inside = True
    return inside and any(op.startswith("recv") and len(o) > 20 and ":" not in o for op, o in zip(ops, out))


def rec_f01(info):
    """the implementation behaves exactly like the model of the unpatched code (`ws.r+1 >= len(ws.buf)`)"""
    ops = info["ops"]
    asis = core.run_cases([core.oracle_exe(info["stream"]), "asis"], [ops])[0]
    return asis == info["impl"] and asis != info["model"]


RECOGNISERS = {"f01": rec_f01}


def streams(tier):
    n = 5000 if tier == "quick" else 100000
    return [(core.Stream("wsconn", "wsconn", gen, predicate, nontrivial, keep_prefix=1, timeout=600), n),
            (core.Stream("wsecho", "wsecho", gen_echo, pred_echo, nontrivial_echo, keep_prefix=1, timeout=600), n // 4)]


def run(r):
    return core.standard_run(r, __import__(__name__, fromlist=["x"]))


RULE = ("one real gorilla/websocket connection per case on loopback TCP, upgraded with the broker's own Upgrader and wrapped by the "
        "real wsConn; the client side sends binary messages of 0,1,2,3,5,17,1023..1025,2047..2049 and random 0..3000 bytes (position-"
        "dependent content), occasionally a text message; the driver calls wsConn.Read with buffer sizes 1,2,3,7,1023..1025,2047..2049,"
        "4096,8192, always 1024 (bufio fill), or random, interleaved with the sends or after them, up to the end of the stream; "
        "wsConn.Write of 0..1025 bytes is observed at the client. Each case runs through the real code and the Lean model and is compared "
        "line by line; the Python predicate re-checks the property (returned chunks = next bytes of the concatenated binary payloads, "
        "complete at end of stream, text => error). non-trivial = distinct case in which some Read stops strictly inside a message and "
        "the stream is read to its end. "
        "wsecho: a real broker per configuration (default, max_packet_size 64, 128) with the handler WsServer listeners get on loopback HTTP; "
        "a gorilla client sends an MQTT 3.1.1 session (CONNECT, SUBSCRIBE, 1-20 QoS 0 PUBLISHes of 0..5000 bytes, resp. all <= max_packet_size) "
        "cut into WebSocket messages aligned / all-in-one / fixed 7,100,1023..1025,2047..2049 resp. limit-1,limit,limit+1,2*limit(+1) / "
        "groups of 2-9 whole packets (messages longer than max_packet_size made of legal small packets) / byte by byte / random, with "
        "interleaved collection of the answers; the answer bytes (CONNACK, SUBACK, echoed PUBLISHes) must be those of the concatenated "
        "stream whatever the segmentation and configuration. non-trivial = a message boundary strictly inside a packet, or a message longer "
        "than a small max_packet_size carrying >= 2 packets, and a PUBLISH echoed")
ASSUME = ["gorilla/websocket and the kernel deliver whole data messages in order (ReadMessage returns one message per call)",
          "Read is called by one goroutine (the broker's readLoop); Write by one goroutine (writeLoop)",
          "reads that would block are not issued (blocking is ReadMessage waiting for the peer, not wsConn logic)",
          "stream wsecho: the handler WsServer listeners get (wsHandler) on a loopback HTTP server, not ListenAndServe itself; MQTT 3.1.1 "
          "sessions only, so max_packet_size (64/128/default) never applies to the MQTT packets themselves; answers compared byte for byte"]
