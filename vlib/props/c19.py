"""C19 — No broker state is reachable without passing authentication (plugin/auth in a real broker, wire level)."""
import re
from .. import core, wire

PROP = "C19"
MODULE = "GmqttVerif.Properties.C19"
THEOREMS = ["GmqttVerif.Auth." + t for t in
            ["validate_iff", "connect_decision", "connect_phase_closed", "empty_method_fails_closed", "branches_partition",
             "accepted_passed_exactly_one", "first_connect", "accounts_refine_map", "load_save",
             "restart_after_history", "update_takes_effect", "delete_takes_effect", "f39_witness", "preauth_inert",
             "rejected_inert", "run_inert"]]
COMPS = ["authbroker"]
RACE_COMPS = ["authbroker"]

ALGS = ["plain", "md5", "sha256", "bcrypt"]
SPECIAL = set(b",:[]=|()")

def tok(b):
    """canonical token of a byte string (mirror of showBytes in harness/cmd/drive_broker/auth.go)"""
    if isinstance(b, str):
        b = b.encode()
    if not b:
        return "~"
    if any(c <= 0x20 or c >= 0x7f or c in SPECIAL for c in b) or b.startswith(b"hex:") or b == b"~":
        return "hex:" + b.hex()
    return b.decode()

def untok(t):
    if t == "~":
        return b""
    if t.startswith("hex:"):
        return bytes.fromhex(t[4:])
    return t.encode()

# ---------------------------------------------------------------- a tiny MQTT encoder for `raw`

def vbi(n):
    out = bytearray()
    while True:
        d = n % 128
        n //= 128
        out.append(d | (0x80 if n else 0))
        if not n:
            return bytes(out)

def bstr(b):
    return len(b).to_bytes(2, "big") + b

def pkt(first, body):
    return bytes([first]) + vbi(len(body)) + body

def enc_connect(v, cid, clean=True, user=None, pw=None, am=None, ad=None):
    name = b"MQIsdp" if v == 3 else b"MQTT"
    flags = (0x02 if clean else 0) | (0x80 if user is not None else 0) | (0x40 if pw is not None else 0)
    body = bstr(name) + bytes([v, flags]) + (0).to_bytes(2, "big")
    if v == 5:
        props = b""
        if am is not None:
            props += b"\x15" + bstr(am)
        if ad is not None:
            props += b"\x16" + bstr(ad)
        body += vbi(len(props)) + props
    body += bstr(cid)
    if user is not None:
        body += bstr(user)
    if pw is not None:
        body += bstr(pw)
    return pkt(0x10, body)

def enc_publish(v, topic, payload, qos=0, retain=False, pid=1):
    body = bstr(topic) + (pid.to_bytes(2, "big") if qos else b"") + (b"\x00" if v == 5 else b"") + payload
    return pkt(0x30 | (qos << 1) | (1 if retain else 0), body)

def enc_subscribe(v, pid, flt, qos):
    return pkt(0x82, pid.to_bytes(2, "big") + (b"\x00" if v == 5 else b"") + bstr(flt) + bytes([qos]))

def enc_auth(code, ad):
    props = b"\x15" + bstr(b"M") + b"\x16" + bstr(ad)
    return pkt(0xF0, bytes([code]) + vbi(len(props)) + props)

PINGREQ = bytes([0xC0, 0x00])

# ---------------------------------------------------------------- generator

USERS = [b"alice", b"bob", b"Alice", b"al", b"alicex", b"a", b"carol"]
PWS = [b"secret", b"Secret", b"secre", b"secretx", b"", b"x", b"p" * 72, b"p" * 73, b"pw with space", b"\xff\x00bin"]

def near_miss(rng, u, p):
    """(user or None, password or None) close to the valid pair"""
    k = rng.randrange(14)
    if k == 0: return u.swapcase(), p
    if k == 1: return u[:-1], p
    if k == 2: return u + b"x", p
    if k == 3: return u, p.swapcase() if p.swapcase() != p else p + b"X"
    if k == 4: return u, p[:-1] if p else b"x"
    if k == 5: return u, p + b"\x00"
    if k == 6: return u, b""
    if k == 7: return u, None
    if k == 8: return None, p
    if k == 9: return b"", p
    if k == 10: return p, u
    if k == 11: return u + b"\x00", p
    if k == 12: return u, p + b"x"
    return u, p * 2 if p else b"~"

def valid_utf8(b):
    try:
        b.decode("utf-8")
        return True
    except UnicodeDecodeError:
        return False

def plain_tok(b):
    """can this byte string be a `conn … user=`/`pass=` token (no hex form there)"""
    t = tok(b)
    return not t.startswith("hex:")

def pipeline(rng, v, valid=None):
    """packets written in the SAME write behind a CONNECT that will be refused (the only way to get packets to the broker
    "after a failed CONNECT": the server closes the connection itself). -> (bytes, kinds for the model)"""
    out, kinds = b"", []
    for _ in range(rng.randint(1, 4)):
        r = rng.random()
        if r < 0.4:
            q = rng.choice([0, 0, 1, 2])
            out += enc_publish(v, b"t/pl", b"pl", q, True, 7); kinds.append(f"p{q}")
        elif r < 0.65:
            out += enc_subscribe(v, 9, b"#", 1); kinds.append("o")
        elif r < 0.8:
            out += PINGREQ; kinds.append("o")
        else:
            u, p = valid if valid and len(valid[0]) + len(valid[1]) < 100 else (None, None)
            # (the whole write must fit the broker's 1024-byte read buffer, or the server's close cuts the write short)
            out += enc_connect(v, b"late", True, u, p); kinds.append("o")      # a second CONNECT, possibly with valid credentials
    return out, kinds

def gen(rng):
    alg = rng.choice(ALGS)
    pf, cwd = rng.choice([("rel", "same"), ("rel", "same"), ("rel", "other"), ("abs", "other"), ("abs", "same")])
    enh = 1 if rng.random() < 0.3 else 0
    head = f"new mode=onlyonce auth={alg} pf={pf} cwd={cwd} enh={enh}"
    accts = {}          # what the script believes is stored and matchable: user -> password bytes
    if rng.random() < 0.3:
        seeds = []
        used = set()
        for _ in range(rng.randint(1, 3)):
            u, p = rng.choice(USERS), rng.choice(PWS[:6])
            if u in used:
                continue
            used.add(u)
            kind = rng.random()
            if kind < 0.7:
                seeds.append(f"{tok(u)}:H({tok(p)})"); accts[u] = p
            elif kind < 0.85 and alg != "plain":
                seeds.append(f"{tok(u)}:U({tok(p)})")
            else:
                seeds.append(f"{tok(u)}:{tok(p)}")
                if alg == "plain":
                    accts[u] = p
        if seeds:
            head += " seed=" + ",".join(seeds)
    fileacc = dict(accts)
    ops = [head]
    n_conn, pid, tagn = 0, 0, 0
    fail = False

    def connect(u, p, force_am=None, noam=False):
        """one CONNECT attempt; through `conn` when the bytes fit its token syntax, otherwise dial + raw.
        returns (name, version, the script's own expectation)"""
        nonlocal n_conn
        n_conn += 1
        name, cid = f"k{n_conn}", f"c{n_conn}"
        if u is not None: u = u[:65535]
        if p is not None: p = p[:65535]
        v = rng.choice([3, 4, 5, 5])
        am = ad = None
        if force_am is not None:
            v, am, ad = 5, force_am, rng.choice([None, None, b"go", b"c"])
        elif v == 5 and not noam and rng.random() < 0.35:
            # b"" = the Authentication Method property PRESENT with a zero-length value (0x15 0x00 0x00): still "a method"
            am = rng.choice([b"M", b"M", b"SCRAM", b"M", b"", b""])
            ad = rng.choice([b"go", b"zz", b"go", None] + ([b"c", b"c"] if rng.random() < 0.2 else []))
        if (u is None and p is not None) and v != 5 and rng.random() < 0.7:
            v = 5
        simple = (u is None or plain_tok(u)) and (p is None or plain_tok(p)) and rng.random() < 0.8
        # the user name is a UTF-8 string: NUL or invalid UTF-8 makes the CONNECT malformed (the password is binary data)
        bad_utf8 = u is not None and (b"\x00" in u or not valid_utf8(u))
        extra = ""
        if u is not None: extra += f" user={tok(u)}"
        if p is not None: extra += f" pass={tok(p)}"
        if am is not None: extra += f" am={am.decode()}" + (f" ad={ad.decode()}" if ad is not None else "")
        if am is not None:
            want = bool(enh and am == b"M" and ad == b"go")
        else:
            want = u is not None and u in accts and accts[u] == (p or b"") and not (alg == "bcrypt" and len(p or b"") > 72)
        challenge = am is not None and enh and am == b"M" and ad == b"c"
        raw = enc_connect(v, cid.encode(), True, u, p, am, ad)
        if bad_utf8:
            ops.append(f"dial {name} v={v}")
            ops.append(f"raw {name} {raw.hex()} k=garbage")
            return name, v, None          # the broker closes the socket
        ann = f"k=connect v={v} cid={cid} cs=1 uf={int(u is not None)} pf={int(p is not None)}" + extra
        if not want and not challenge and len(raw) < 600 and rng.random() < 0.5:
            # refused CONNECT with packets pipelined behind it in the same write
            valid = next(((a, accts[a]) for a in sorted(accts)), None)
            more, kinds = pipeline(rng, v, valid)
            ops.append("api state")
            ops.append(f"dial {name} v={v}")
            ops.append(f"raw {name} {(raw + more).hex()} {ann} more={','.join(kinds)}")
            ops.append("api state")
            return name, v, None
        if simple:
            ops.append(f"conn {name} {cid} v={v} cs=1" + extra)
        else:
            ops.append(f"dial {name} v={v}")
            ops.append(f"raw {name} {raw.hex()} {ann}")
        if challenge:
            ans = rng.choice([b"ok", b"ok", b"more", b"bad"])
            ops.append(f"raw {name} {enc_auth(0x18, ans).hex()} k=auth code=24 ad={ans.decode()}")
            want = ans == b"ok"
            if ans == b"more":
                ans2 = rng.choice([b"ok", b"bad"])
                ops.append(f"raw {name} {enc_auth(0x18, ans2).hex()} k=auth code=24 ad={ans2.decode()}")
                want = ans2 == b"ok"
        if not want:
            ops.append("api state")
            return name, v, None           # refused: the server has closed the connection
        return name, v, True

    def traffic(name, v, want):
        """packets on an accepted connection, between two snapshots"""
        nonlocal pid, tagn
        ops.append("api state")
        for _ in range(rng.randint(1, 5)):
            r = rng.random()
            pid += 1
            if r < 0.3:
                ops.append(f"sub {name} {pid} t/#|1")
            elif r < 0.6:
                tagn += 1
                q = rng.choice([0, 1, 2])
                ops.append(f"pub {name} t/x{tagn % 3} q={q} pid={pid if q else 0} r={rng.choice([0, 1, 1])} tag=u{tagn}")
                if q == 2:
                    ops.append(f"rel {name} {pid}")
            elif r < 0.8:
                ops.append(f"ping {name}")
            else:
                ops.append(f"unsub {name} {pid} t/#")
        ops.append("api state")

    for _ in range(rng.randint(5, 14)):
        r = rng.random()
        if r < 0.22:
            u, p = rng.choice(USERS), rng.choice(PWS)
            if rng.random() < 0.03:
                u = b"u" * 65535
            if rng.random() < 0.03:
                p = b"q" * 65535
            if rng.random() < 0.05:
                u = b""
            ops.append(f"api acct set {tok(u)} {tok(p)}")
            if u and not fail and not (alg == "bcrypt" and len(p) > 72):
                accts[u] = p
                fileacc = dict(accts)
        elif r < 0.30 and accts:
            u = rng.choice(sorted(accts) + [b"nobody"])
            ops.append(f"api acct del {tok(u)}")
            if not fail and u in accts:
                accts.pop(u, None)
                fileacc = dict(accts)
        elif r < 0.36:
            fail = not fail
            ops.append(f"api acct failsave {int(fail)}")
        elif r < 0.42:
            ops.append(rng.choice(["api acct list", "api acct file", f"api acct get {tok(rng.choice(USERS))}"]))
        elif r < 0.50:
            if rng.random() < 0.25:
                spec, fileacc = rng.choice([("alice:H(secret),alice:H(x)", {}), ("~:H(x)", {}), ("bob:H(x),~:y,bob:z", {}),
                                            ("bob:H(secret)", {b"bob": b"secret"}), ("alice:H(x),bob:H(~)", {b"alice": b"x", b"bob": b""})])
                ops.append(f"api acct seedfile {spec}")
            ops.append("api acct file")
            ops.append("api restartauth")
            ops.append("api acct list")
            accts = dict(fileacc)
        elif r < 0.58:
            # packets before any CONNECT (and a valid CONNECT / more packets behind them in the same write)
            n_conn += 1
            name = f"k{n_conn}"
            ops.append("api state")
            ops.append(f"dial {name} v=4")
            first = rng.random()
            valid = next(((a, accts[a]) for a in sorted(accts)), None)
            more, kinds = pipeline(rng, 4, valid) if rng.random() < 0.7 else (b"", [])
            tail = (" more=" + ",".join(kinds)) if kinds else ""
            if first < 0.35:
                ops.append(f"raw {name} {(enc_publish(4, b't/pre', b'pre', 0, True) + more).hex()} k=publish q=0" + tail)
            elif first < 0.6:
                ops.append(f"raw {name} {(enc_subscribe(4, 1, b'#', 1) + more).hex()} k=other" + tail)
            elif first < 0.8:
                ops.append(f"raw {name} {(PINGREQ + more).hex()} k=other" + tail)
            else:
                ops.append(f"raw {name} ff00 k=garbage")
            ops.append("api state")
        elif r < 0.66:
            # the present-but-empty Authentication Method with every credential combination: must fail closed
            valid = next(((a, accts[a]) for a in sorted(accts)), (b"alice", b"secret"))
            for u, p in [(None, None), (b"nobody", b"x"), (valid[0], valid[1] + b"!"), valid]:
                if rng.random() < 0.75:
                    connect(u, p, force_am=b"")
        elif r < 0.74 and accts and not fail:
            # stale credentials: an account that has just been used successfully is deleted, re-created and/or given another
            # password through the account API; the NEXT CONNECT is judged by what is stored now — whatever the plugin
            # remembers about earlier logins must not outlive the account (seed C19-3)
            u = rng.choice(sorted(accts)); p1 = accts[u]
            for _ in range(rng.choice([1, 1, 2])):
                connect(u, p1, noam=True)
            how = rng.choice(["del", "del+set", "del+set", "set"])
            p2 = rng.choice([x for x in PWS[:6] if x != p1])
            if how != "set":
                ops.append(f"api acct del {tok(u)}"); accts.pop(u, None)
            if how != "del":
                ops.append(f"api acct set {tok(u)} {tok(p2)}")
                if not (alg == "bcrypt" and len(p2) > 72):
                    accts[u] = p2
            fileacc = dict(accts)
            connect(u, p1, noam=True)
            if how != "del" and rng.random() < 0.7:
                connect(u, p2, noam=True)
                connect(u, p1, noam=True)
        else:
            # a CONNECT: valid, near miss, or unknown
            if accts and rng.random() < 0.85:
                u = rng.choice(sorted(accts))
                p = accts[u]
                if rng.random() < 0.55:
                    u, p = near_miss(rng, u, p)
                    if alg == "bcrypt" and p is not None and b"\x00" in p:
                        # bcrypt keys are NUL-terminated and cycled: "" and "\x00" are the same key (see findings/c19-bcrypt-*.md)
                        p = p.replace(b"\x00", b"\x01")
            else:
                u, p = rng.choice(USERS), rng.choice(PWS)
            name, v, want = connect(u, p)
            if want and rng.random() < 0.6:
                traffic(name, v, want)
    ops.append("api state")
    return ops

# ---------------------------------------------------------------- predicate

def accepts_enh(am, ad):
    """the harness's enhanced-auth test hook: verdict for the CONNECT itself: 'ok' | 'cont' | 'no'"""
    if am != "M":
        return "no"
    return {"go": "ok", "c": "cont"}.get(ad, "no")

class Stored:
    """what one account's stored value accepts"""
    def __init__(self, kind, val):
        self.kind, self.val = kind, val      # H: hash of val; L: literal stored val; U: upper-cased hash (never matches)
    def matches(self, alg, pw):
        if self.kind == "H":
            return pw == self.val and not (alg == "bcrypt" and len(pw) > 72)
        if self.kind == "L":
            return alg == "plain" and pw == self.val
        return False

def parse_seed(alg, spec):
    """-> (accounts dict or None on load error)"""
    acc, seen = {}, set()
    if spec in ("~", ""):
        return acc
    for ent in spec.split(","):
        if ":" not in ent:
            continue
        u, s = ent.split(":", 1)
        ub = untok(u)
        if ub == b"":
            return None
        if ub in seen:
            return None
        seen.add(ub)
        if s.startswith("H(") and s.endswith(")"):
            acc[ub] = Stored("H", untok(s[2:-1]))
        elif s.startswith("U(") and s.endswith(")"):
            p = untok(s[2:-1])
            acc[ub] = Stored("H", p) if alg == "plain" else Stored("U", p)     # plain: U(p) upper-cases nothing but p itself
            if alg == "plain":
                acc[ub] = Stored("L", p.upper())
        else:
            acc[ub] = Stored("L", untok(s))
    return acc

def kvs(f):
    return dict(x.split("=", 1) for x in f if "=" in x)

def predicate(ops, out):
    if len(out) != len(ops) or (out and out[0].startswith("CRASH")):
        return "implementation crashed or hung: " + (out[0] if out else "")
    alg, enh = "plain", False
    acc = {}                  # the account map the script built (what must be accepted)
    filemap = {}              # what the password file must hold (= acc at the last successful save, or a seed)
    fail = False
    accepted, unauth = {}, {}     # conn name -> client id
    pending = {}                  # conn name -> (cid) enhanced auth in progress
    fresh = set()                 # dialled, nothing sent yet
    last_state, only_unauth = None, True
    for i, (op, line) in enumerate(zip(ops, out)):
        f = op.split()
        m = kvs(f[1:])
        pre, conns = wire.parse_line(line)
        if "HANG" in line:
            return f"broker did not become quiescent after `{op}`"
        if "UNLOCKED-SAVE" in line.split():
            return (f"`{op}`: the password file was written while the plugin's lock was NOT held — the save is then not part of the "
                    "critical section that changed the account index: two overlapping account requests can write their snapshots "
                    "in the opposite order, and a restarted broker loads the older one")
        if "panic" in pre:
            return f"`{op}` panicked in the code under test"
        if f[0] == "new":
            alg, enh = m.get("auth", "plain"), m.get("enh") == "1"
            s = parse_seed(alg, m.get("seed", "~"))
            acc = dict(s) if s is not None else {}
            filemap = dict(acc)
            continue
        # ---- nothing may ever be delivered to a connection that is not authenticated, except CONNACK / AUTH / close
        for name, (h, p) in conns.items():
            if name in unauth or name in pending:
                bad = [x for x in h + p if not x.startswith(("connack(", "auth(", "closed"))]
                if bad:
                    return f"`{op}`: unauthenticated connection {name} received {bad}"
        if f[0] == "api" and f[1] == "acct":
            res = pre[0] if pre else "?"
            if f[2] == "set":
                u, p = untok(f[3]), untok(f[4])
                want = "err:invalid" if not u else "err:toolong" if (alg == "bcrypt" and len(p) > 72) else "err:save" if fail else "ok"
                if res != want:
                    return f"`{op}` returned {res}, expected {want}"
                if res == "ok":
                    acc[u] = Stored("H", p)
                    filemap = dict(acc)
            elif f[2] == "del":
                u = untok(f[3])
                want = "err:invalid" if not u else "err:save" if (fail and u in acc) else "ok"
                if res != want:
                    return f"`{op}` returned {res}, expected {want}"
                if res == "ok" and u in acc:
                    acc.pop(u)
                    filemap = dict(acc)
            elif f[2] == "failsave":
                fail = f[3] == "1"
            elif f[2] == "seedfile":
                filemap = parse_seed(alg, f[3])
            elif f[2] == "list":
                mm = re.match(r"n=(\d+)", res)
                if not mm or int(mm.group(1)) != len(acc):
                    return f"`{op}`: {res}, but the script's account map has {len(acc)} accounts"
            elif f[2] == "get":
                u = untok(f[3])
                if (res == "err:notfound") != (u not in acc and u != b""):
                    return f"`{op}`: {res}, account {'exists' if u in acc else 'does not exist'}"
            only_unauth = False
        elif f[0] == "api" and f[1] == "restartauth":
            res = pre[0] if pre else "?"
            if filemap is None:
                if not res.startswith("load-err"):
                    return f"`{op}`: a password file with an empty or duplicated user name was loaded ({res})"
                acc = {}
            else:
                if res != "ok":
                    return f"`{op}`: {res}"
                # what a restarted broker loads must be the accounts as they were last saved
                acc_new = dict(filemap)
                acc = acc_new
            only_unauth = False
        elif f[0] == "api" and f[1] == "state":
            if last_state is not None and only_unauth and line != last_state:
                return f"state changed by unauthenticated traffic before op {i} `{op}`: {last_state}  ->  {line}"
            for name, cid in list(unauth.items()) + list(pending.items()):
                if re.search(r"[\[,]" + re.escape(cid) + r"[,/\]]", line):
                    return f"`{op}`: client id {cid} of a connection that never authenticated appears in the broker state: {line}"
            last_state, only_unauth = line, True
        elif f[0] in ("conn", "raw") and (f[0] == "conn" or m.get("k") == "connect"):
            name = f[1]
            if name in fresh:
                fresh.discard(name); unauth.pop(name, None)
            elif f[0] == "raw":
                # a CONNECT on a connection that already had its answer: must be ignored
                if conns.get(name, ([], []))[0] not in ([], ["closed"]):
                    return f"`{op}`: a second CONNECT on {name} was answered: {line}"
                continue
            cid = f[2] if f[0] == "conn" else m.get("cid", "?")
            v = int(m.get("v", "4"))
            uf = ("user" in m) if f[0] == "conn" else m.get("uf") == "1"
            pf_ = ("pass" in m) if f[0] == "conn" else m.get("pf") == "1"
            user = untok(m["user"]) if uf and "user" in m else b""
            pw = untok(m["pass"]) if pf_ and "pass" in m else b""
            am = m.get("am") if v == 5 else None
            h = conns.get(name, ([], []))[0]
            ca = next((x for x in h if x.startswith("connack(")), None)
            got_accept = ca is not None and ",code=0" in ca.replace("code=0)", "code=0,")
            if am is not None:
                verdict = accepts_enh(am, m.get("ad", "")) if enh else "no"
                if verdict == "cont":
                    if not any(x.startswith("auth(24") for x in h) or ca is not None:
                        return f"`{op}`: expected an AUTH challenge, got {line}"
                    pending[name] = cid
                    continue
                want = verdict == "ok"
            else:
                st = acc.get(user)
                want = uf and st is not None and st.matches(alg, pw)
            if got_accept != want:
                return (f"`{op}`: CONNECT was {'accepted' if got_accept else 'refused'} ({ca}) but user {tok(user)} "
                        f"{'is' if user in acc else 'is not'} an account and the password {'matches' if want else 'does not match'} "
                        f"(alg={alg}, accounts={sorted(tok(k) for k in acc)})")
            if got_accept:
                accepted[name] = cid
                only_unauth = False
            else:
                unauth[name] = cid
                if ca is None:
                    continue        # refusal CONNACK lost (known race, not a C19 matter)
                code = int(re.search(r"code=(\d+)", ca).group(1))
                exp = (0x80 if not enh else None) if am is not None else (5 if v in (3, 4) else 0x87)
                if exp is not None and code != exp:
                    return f"`{op}`: refused with code {code}, expected {exp}"
        elif f[0] == "raw" and m.get("k") == "auth":
            name = f[1]
            h = conns.get(name, ([], []))[0]
            if name in pending:
                ad = m.get("ad", "")
                ca = next((x for x in h if x.startswith("connack(")), None)
                if ad == "more":
                    if ca is not None or not any(x.startswith("auth(24") for x in h):
                        return f"`{op}`: expected another challenge: {line}"
                elif ad == "ok":
                    if ca is None or "code=0," not in ca.replace("code=0)", "code=0,"):
                        return f"`{op}`: enhanced authentication completed but {line}"
                    accepted[name] = pending.pop(name); only_unauth = False
                else:
                    if ca is not None and "code=0," in ca.replace("code=0)", "code=0,"):
                        return f"`{op}`: wrong enhanced-auth answer accepted: {line}"
                    unauth[name] = pending.pop(name)
        elif f[0] == "dial":
            unauth[f[1]] = "?" + f[1]
            fresh.add(f[1])
        elif len(f) > 1 and (f[1] in unauth or f[1] in pending):
            fresh.discard(f[1])
            # traffic on an unauthenticated connection: nobody else may hear of it
            for name, (h, p) in conns.items():
                if name != f[1] and (h or p):
                    return f"`{op}` on an unauthenticated connection made {name} receive {h + p}"
        else:
            only_unauth = False
    return None

def hint(ops, impl_out):
    """the refusal CONNACK is lost at random on the unpatched tree (writeLoop select race, findings/c19-refusal-connack-lost.md):
    tell the model when the implementation did not send it"""
    res = []
    for op, line in zip(ops, impl_out):
        f = op.split()
        if f and (f[0] == "conn" or (f[0] == "raw" and "k=connect" in f)) and line.strip() == "-":
            op += " lost=1"
        res.append(op)
    return res

def nontrivial(ops, out):
    """at least one CONNECT accepted and one refused while accounts exist, or packets sent on a refused connection"""
    acc = sum(1 for o, l in zip(ops, out) if o.startswith(("conn ", "raw ")) and "connack(sp=0,code=0" in l)
    ref = sum(1 for o, l in zip(ops, out) if o.startswith(("conn ", "raw ")) and "connack(" in l and "connack(sp=0,code=0" not in l)
    return (acc >= 1 and ref >= 1) or ref >= 2

def canon(ops, out):
    return wire.canon(ops, out)

import os
# the model mirrors the patched code; VERIF_C19_ASIS=1 selects the unpatched behaviour (F39, enhanced-auth deadlock, bcrypt truncation)
ORACLE_ARGS = ["asis"] if os.environ.get("VERIF_C19_ASIS") else []

# ---------------------------------------------------------------- CONNECTs of several connections at the same moment

def gen_par(rng):
    """accounts, then rounds of 4–8 CONNECTs written at the same moment on fresh connections (right password, wrong password, empty
    password, another account's password, unknown user), account changes between rounds"""
    alg = rng.choice(["md5", "md5", "sha256", "sha256", "plain", "bcrypt"])
    ops = [f"new mode=onlyonce auth={alg} pf=abs cwd=other enh=0"]
    acc = {}
    for u in rng.sample(["alice", "bob", "carol", "al"], rng.randint(1, 3)):
        acc[u] = rng.choice(["secret", "Secret", "pw", "p" * 40, "x"])
        ops.append(f"api acct set {u} {acc[u]}")
    n = 0
    for r in range(rng.randint(5, 10) if alg != "bcrypt" else 2):
        specs = []
        for i in range(rng.randint(4, 8)):
            n += 1
            u = rng.choice(list(acc) + list(acc) + ["nobody"])
            right = acc.get(u)
            k = rng.random()
            if right is not None and k < 0.5:
                pw = right
            elif k < 0.65:
                pw = ""
            elif k < 0.8:
                pw = rng.choice(list(acc.values()))
            else:
                pw = (right or "q") + "x"
            specs.append(f"p{n:03d},pc{n},{rng.choice([3, 4, 5, 5])},{u},{tok(pw)}")
        ops.append("parconn " + " ".join(specs))
        if rng.random() < 0.3:
            u = rng.choice(list(acc))
            acc[u] = rng.choice(["secret", "other", "pw2"])
            ops.append(f"api acct set {u} {acc[u]}")
        if rng.random() < 0.3:
            ops.append("api state")
    ops.append("api state")
    return ops

def pred_par(ops, out):
    """every CONNECT of a parallel round is judged on its own credentials against the accounts as they are at that moment"""
    if out and out[0].startswith("CRASH"):
        if "DATA RACE" in out[0] or "data race" in out[0]:
            return ("the Go race detector reported a data race while CONNECTs of several connections were authenticated at the same moment "
                    "(the verdict on a CONNECT must depend on its own credentials only): " + out[0][:1200].replace("\n", " | "))
        return None
    acc = {}
    for op, line in zip(ops, out):
        f = op.split()
        if f[:3] == ["api", "acct", "set"] and line.startswith("ok"):
            acc[f[3]] = untok(f[4])
        elif f[0] == "parconn":
            _, conns = wire.parse_line(line)
            for sp in f[1:]:
                name, cid, v, u, pw = sp.split(",")
                h = conns.get(name, ([], []))[0]
                ca = next((x for x in h if x.startswith("connack(")), None)
                got = ca is not None and ",code=0" in ca.replace("code=0)", "code=0,")
                want = u in acc and acc[u] == untok(pw)
                if got != want:
                    return (f"`parconn`: the CONNECT on {name} (user {u}, password {pw}) was {'accepted' if got else 'refused'} ({ca}) although the "
                            f"password {'matches' if want else 'does not match'} the account; the other CONNECTs of the round: {' '.join(x for x in f[1:] if x != sp)}")
        elif f[:2] == ["api", "state"]:
            pass
    return None

def streams(tier):
    n = 600 if tier == "quick" else 8000
    res = [(core.Stream("auth-broker", "authbroker", gen, predicate, nontrivial, canon=canon, keep_prefix=1, hint=hint,
                        oracle_args=ORACLE_ARGS), n)]
    par = core.Stream("auth-parallel", "authbroker_race", gen_par, pred_par, lambda ops, out: any("code=0" in l for l in out) and any("code=135" in l or "code=5" in l or "code=4" in l for l in out),
                      keep_prefix=1, oracle_args=ORACLE_ARGS, timeout=600)
    par.oracle_comp, par.gomaxprocs = "authbroker", 4
    res.append((par, 60 if tier == "quick" else 1500))
    return res

def _new_kv(info):
    return kvs(info["ops"][0].split()[1:]) if info.get("ops") else {}

def rec_f39(info):
    """password file saved relative to the working directory, loaded relative to ConfigDir: only with a relative
    password_file and cwd != ConfigDir, and only visible through the files / a restart"""
    m = _new_kv(info)
    if not (m.get("pf", "rel") == "rel" and m.get("cwd") == "other"):
        return False
    ops = info["ops"]
    touched = any(o.startswith(("api acct set", "api acct del")) for o in ops)
    seen = any(o.startswith(("api restartauth", "api acct file")) for o in ops)
    return touched and seen

def rec_enh(info):
    """enhanced authentication can never complete (read loop waits for `connected`)"""
    return any(o.startswith("raw ") and "k=auth" in o for o in info["ops"]) and "send-failed" in " ".join(info.get("impl") or [info.get("why", "")])

def rec_bcrypt(info):
    m = _new_kv(info)
    return m.get("auth") == "bcrypt" and "CONNECT was accepted" in (info.get("why") or "") and \
        any(len(untok(kvs(o.split()[1:]).get("pass", "~"))) > 72 for o in info["ops"] if o.startswith(("conn ", "raw ")))

RECOGNISERS = {"c19_f39_password_file_cwd": rec_f39, "c19_enhanced_auth_deadlock": rec_enh, "c19_bcrypt_72": rec_bcrypt}

def run(r):
    return core.standard_run(r, __import__(__name__, fromlist=["x"]))

RULE = ("the real plugin/auth loaded into an in-process broker (account API called in-process, password file in a private temp dir, "
        "ConfigDir = / != working directory, relative / absolute password_file): account histories (set/del/failing saves/restart from "
        "the file/hand-written files with duplicate or empty user names) x CONNECTs of v3.1/v3.1.1/v5 with every user/password flag "
        "combination, near-miss credentials (case, prefix, extra byte, NUL, empty, 72/73/65535 bytes), AuthMethod/AuthData with and "
        "without an enhanced-auth hook, packets before CONNECT and packets pipelined behind a CONNECT that is refused (the server closes a "
        "refused connection itself, so the same write is the only way to get them there), state snapshots around them; compared "
        "with the Lean auth model in front of the broker model. non-trivial = one accepted and one refused CONNECT, or two refused")
ASSUME = ["md5/sha256/bcrypt and YAML are not modelled (uninterpreted Crypto; hashes rendered symbolically by the harness)",
          "bcrypt refuses passwords over 72 bytes (golang.org/x/crypto v0.49)",
          "the 5 s connect timeout is modelled but not exercised at wire level"]
