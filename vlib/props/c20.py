"""C20 — Statistics are conserved: the broker's counters equal what actually happened (wire level)."""
import os, re
from .. import core, wire
from . import sessgen, c01

PROP = "C20"
MODULE = "GmqttVerif.Properties.C20"
THEOREMS = ["GmqttVerif.Stats." + t for t in
            ["global_is_sum", "global_exact", "client_exact", "clientTotal_eq_sum", "per_qos_exact", "gauges_exact",
             "client_gauges_exact", "conn_gauges_exact", "no_underflow",
             "asis_qos_miscounted", "asis_inflight_wraps", "asis_gauges_leak", "asis_auth_invisible"]]
THEOREMS.append("GmqttVerif.C20Source.session_stats_events_under_mu")
EXTRA_MODULES = ["GmqttVerif.Properties.C20Source"]
NEEDS_FACTS = ["MuHeld"]
COMPS = ["stats"]

TYPES = ["auth", "connect", "connack", "disconnect", "pingreq", "pingresp", "puback", "pubcomp", "publish", "pubrec", "pubrel",
         "suback", "subscribe", "unsuback", "unsubscribe"]

# ---------------------------------------------------------------- workloads

def with_stats(ops, rng, every=1.0):
    """switch the recording hooks on and observe the statistics at quiescent points (after every op by default)"""
    res = [ops[0] + " stats=1"]
    for op in ops[1:]:
        if op.startswith("race "):
            continue            # its connections are not kept by the harness: no ground truth for them
        if op.startswith("disc ") and " pre=" not in op and rng.random() < 0.35:
            # answer-producing requests pipelined in front of the DISCONNECT (one write), the client reads until the broker
            # closes: whatever the broker still writes while it shuts the connection down must be counted (seed C20-3)
            op += f" pre={rng.choice([40, 200, 400])} prek=ping"
        res.append(op)
        if every >= 1.0 or rng.random() < every:
            res.append("stats")
    if res[-1] != "stats":
        res.append("stats")
    return res

def gen_session(rng):
    return with_stats(sessgen.gen_session(rng, wills=rng.random() < 0.3, flow=rng.random() < 0.5), rng)

def gen_deliver(rng):
    return with_stats(c01.gen(rng), rng, every=rng.choice([1.0, 0.5]))

def gen_drops(rng):
    """queues that overflow, messages larger than the receiver's maximum packet size, sessions that end with messages queued"""
    maxq = rng.choice([2, 3, 4])
    timed = rng.random() < 0.06        # real time: message expiry / in-flight expiry of 1 s and a sleep
    ops = [f"new mode=onlyonce q0={rng.choice([0, 1])} maxq={maxq} mi={rng.choice([1, 2, maxq])} se=7200" + (" me=1 ie=1" if timed else "")]
    ops.append("conn p cp v=5 cs=1")
    v = rng.choice([4, 5])
    mp = rng.choice([None, None, 40]) if v == 5 else None
    ops.append(f"conn s1 cs v={v} cs=0" + (" se=300" if v == 5 else "") + (f" mp={mp}" if mp else ""))
    ops.append(f"sub s1 1 t/#|{rng.choice([1, 2])}")
    ops.append("conn o1 co v=4 cs=0")
    ops.append("sub o1 1 t/a|1")
    pid, tag, life, cur = 1, 0, 1, "s1"
    o1_open = True
    for _ in range(rng.randint(5, 14)):
        r = rng.random()
        if r < 0.55:
            for _ in range(rng.randint(1, 4)):
                tag += 1; pid += 1
                q = rng.choice([0, 1, 1, 2])
                n = rng.choice([0, 0, 0, 60])
                ops.append(f"pub p t/a q={q} pid={pid if q else 0} tag=m{tag}" + (f" n={n}" if n else ""))
                if q == 2:
                    ops.append(f"rel p {pid}")
        elif r < 0.7:
            if cur:
                ops.append(rng.choice([f"close {cur}", f"disc {cur}"])); cur = None
            else:
                life += 1; cur = f"s{life}"
                ops.append(f"conn {cur} cs v={v} cs={rng.choice([0, 0, 0, 1])}" + (" se=300" if v == 5 else "") + (f" mp={mp}" if mp else ""))
        elif r < 0.8 and cur:
            k = rng.choice(["puback", "pubrec", "pubcomp"])
            ops.append(f"ack {cur} {k} {rng.choice(['all', 'k=0'])}")
        elif r < 0.86:
            choice = rng.choice(["api term cs", "api term co", "close o1"])
            if choice != "api term cs" and not o1_open:
                choice = "api term cs"
            ops.append(choice)
            if choice == "api term cs": cur = None
            else: o1_open = False           # closed by the script, or by the broker when its session is terminated
        elif r < 0.92:
            ops.append(f"api backdate cs {rng.choice([100, 400, 8000])}")
            ops.append("api expire")
        elif r < 0.95 and timed:
            ops.append("sleep 1100")
            timed = False
        elif r < 0.97:
            z = f"z{len(ops)}"
            ops.append(f"dial {z} v=4")
            ops.append(f"raw {z} c000")          # PINGREQ before CONNECT: refused with a CONNACK, booked under client id ""
        else:
            ops.append("ping p")
    if cur:
        for k in ("puback", "pubrec", "pubcomp"):
            ops.append(f"ack {cur} {k} all")
    return with_stats(ops, rng)

def gen_burst(rng):
    """bursts of QoS 0 / QoS 1 publishes from two connections at the same moment to online subscribers whose readers are parked in
    Queue.Read: the adder's and the reader's reports about one message race; at quiescence every gauge must equal the contents"""
    ops = [f"new mode=onlyonce q0=1 maxq=1000 mi=100 se=7200"]
    ops += ["conn p cp v=5 cs=1", "conn r cr v=4 cs=1"]
    subs = ["s1", "s2"][: rng.choice([1, 2])]
    for c in subs:
        ops.append(f"conn {c} c{c} v={rng.choice([4, 5])} cs=1")
        ops.append(f"sub {c} 1 t/#|{rng.choice([0, 0, 1])}")
    pid = 0
    n = {"p": 0, "r": 0}
    for _ in range(rng.randint(2, 5)):
        toks = []
        for _ in range(rng.choice([20, 40, 60])):
            c = rng.choice(["p", "r"]); n[c] += 1
            q = rng.choice([0, 0, 0, 1])
            pid += 1
            toks.append(f"{c},t/a,{q},{pid if q else 0},{c}n{n[c]}")
        ops.append("cpub " + " ".join(toks))
        for c in subs:
            ops.append(f"ack {c} puback all")
    return with_stats(ops, rng)

def gen_refused(rng):
    """the auth plugin refuses some CONNECTs: their packets (and what is sent on them afterwards) are booked under client id """""
    ops = ["new mode=onlyonce auth=plain", "api acct set u pw"]
    n, pid = 0, 0
    good = []
    for _ in range(rng.randint(4, 12)):
        r = rng.random()
        if r < 0.35:
            n += 1
            ops.append(f"conn g{n} cg{n} v={rng.choice([4, 5])} cs=1 user=u pass=pw"); good.append(f"g{n}")
        elif r < 0.7:
            n += 1
            v = rng.choice([3, 4, 5])
            # refused: CONNECT and the failing CONNACK are booked under client id ""; the server closes the connection
            ops.append(f"conn b{n} cb{n} v={v} cs=1 user=u pass={rng.choice(['PW', 'p', 'pwx', '~'])}")
        elif good:
            c = rng.choice(good)
            pid += 1
            ops.append(rng.choice([f"ping {c}", f"sub {c} {pid} t/#|1", f"pub {c} t/a q=1 pid={pid} tag=y{pid}"]))
            if ops[-1].startswith("pub"):
                for g in good:
                    ops.append(f"ack {g} puback all")
    return with_stats(ops, rng)

# ---------------------------------------------------------------- parsing the `stats` line

def parse_kv(s):
    d = {}
    for x in s.split(","):
        if "=" in x:
            k, v = x.split("=", 1)
            d[k] = int(v)
    return d

def parse_pairs(s):
    d = {}
    for x in s.split(","):
        if "=" in x:
            k, v = x.split("=", 1)
            n, b = v.split("/")
            d[k] = (int(n), int(b))
    return d

class Snap:
    """one `stats` output line"""
    def __init__(self, line):
        left, _, right = line.partition(" ## ")
        mg = re.match(r"G:(\S*) C:(\S*)$", left)
        self.ok = bool(mg) and bool(right)
        self.g, self.c = {}, {}
        self.t, self.q, self.s, self.n, self.h = {}, {}, {}, (0, 0), []
        if not self.ok:
            return
        self.g = parse_kv(mg.group(1))
        for ent in mg.group(2).split(";"):
            if ent:
                cid, body = ent[:-1].split("{", 1)
                self.c[cid] = parse_kv(body)
        mr = re.match(r"T:(\S*) Q:(\S*) S:(\S*) N:(\d+)/(\d+) H:(\S*)$", right)
        if not mr:
            self.ok = False
            return
        for ent in mr.group(1).split(";"):
            if ent:
                head, acc, tx, rx, mtx, mrx = ent.split("|")
                conn, cid = head.split("=", 1)
                if cid.startswith("?") or acc != "acc:1":
                    cid = "~"       # no CONNECT was accepted on it (yet): the broker books its packets under client id ""
                self.t[conn] = dict(cid=cid, tx=parse_pairs(tx[3:]), rx=parse_pairs(rx[3:]), mtx=parse_kv(mtx[4:]), mrx=parse_kv(mrx[4:]))
        for ent in mr.group(2).split(";"):
            if ent:
                cid, v = ent.split("=")
                a, b = v.split("/")
                self.q[cid] = (int(a), int(b))
        for ent in mr.group(3).split(";"):
            if ent:
                cid, v = ent.split("=")
                self.s[cid] = int(v)
        self.n = (int(mr.group(4)), int(mr.group(5)))
        for ent in mr.group(6).split(","):
            if ent:
                op, ev = ent.split(":", 1)
                self.h.append((int(op), ev.split("/")))

# ---------------------------------------------------------------- ground truth bookkeeping shared by hint and predicate

class Truth:
    """sessions ("epochs") per client id, the connections attached to each, and what was exchanged / dropped in it"""
    def __init__(self):
        self.epoch = {}         # cid -> current epoch number (0 = never created)
        self.live = {}          # cid -> bool: the session exists
        self.conn_epoch = {}    # conn -> (cid, epoch)
        self.conn_op = {}       # conn -> op index (as the driver counts) of its `conn` op
        self.drops = {}         # (cid, epoch) -> {(qos, reason): n}
        self.hooks = dict(connected=0, closed=0, created=0, normal=0, takenover=0, expired=0)
        self.opi = 0

    def note_op(self, op):
        f = op.split()
        if f[0] != "new":
            self.opi += 1
        if f[0] == "conn" and len(f) >= 3:
            self.conn_op[f[1]] = self.opi

    def assign(self, snap):
        """after the hook events of the interval have been applied: connections seen for the first time get their epoch"""
        for conn, t in snap.t.items():
            if conn not in self.conn_epoch:
                self.conn_epoch[conn] = (t["cid"], self.epoch.get(t["cid"], 0))

def derive_events(truth, prev, snap):
    """events of one interval in an order that respects session boundaries; updates `truth`"""
    evs = []
    cids = sorted({ev[1] for _, ev in snap.h} | {t["cid"] for t in snap.t.values()} | set(snap.q))
    # epoch of connections opened in this interval: count `created` events up to and including the connecting op
    created_at = {}
    for op, ev in snap.h:
        if ev[0] == "created":
            created_at.setdefault(ev[1], []).append(op)
    for conn, t in snap.t.items():
        if conn in truth.conn_epoch and truth.conn_epoch[conn][0] == "~" and t["cid"] != "~":
            del truth.conn_epoch[conn]       # accepted only now: from here on its packets are the client's
        if conn not in truth.conn_epoch:
            cid = t["cid"]
            if cid == "~":
                truth.live["~"] = True
                truth.epoch.setdefault("~", 0)
            base = truth.epoch.get(cid, 0)
            k = truth.conn_op.get(conn, 10 ** 9)
            truth.conn_epoch[conn] = (cid, base + sum(1 for o in created_at.get(cid, []) if o <= k))

    def flush(cid, ep, final_q):
        """packet / message deltas of the connections of (cid, ep); queue deltas when the session is the current one"""
        for conn in sorted(snap.t):
            if truth.conn_epoch.get(conn) != (cid, ep) or conn in flushed:
                continue
            flushed.add(conn)
            t, p = snap.t[conn], (prev.t.get(conn) if prev else None)
            for kind, code in (("tx", "pr"), ("rx", "ps")):
                for ty in TYPES:
                    n, b = t[kind].get(ty, (0, 0))
                    n0, b0 = (p[kind].get(ty, (0, 0)) if p else (0, 0))
                    if n > n0:
                        evs.append(f"{code}/{cid}/{ty}/{n - n0}/{b - b0}")
            for kind, code in (("mtx", "mr"), ("mrx", "ms")):
                for q in ("0", "1", "2"):
                    n, n0 = t[kind].get(q, 0), (p[kind].get(q, 0) if p else 0)
                    if n > n0:
                        evs.append(f"{code}/{cid}/{q}/{n - n0}")
        if final_q and cid in snap.q:
            l, i = snap.q[cid]
            l0, i0 = truth_q.get((cid, ep), (0, 0))
            if l > l0: evs.append(f"aq/{cid}/{l - l0}")
            if i > i0: evs.append(f"ai/{cid}/{i - i0}")
            if l < l0: evs.append(f"dq/{cid}/{l0 - l}")
            if i < i0: evs.append(f"di/{cid}/{i0 - i}")
            truth_q[(cid, ep)] = (l, i)

    truth_q = truth.__dict__.setdefault("q", {})
    flushed = set()
    for cid in cids:
        ep = truth.epoch.get(cid, 0)
        for op, ev in snap.h:
            if ev[1] != cid:
                continue
            kind = ev[0]
            if kind == "terminated":
                flush(cid, ep, False)
                evs.append(f"st/{cid}/{ev[2]}")
                truth.hooks[ev[2]] += 1
                truth.live[cid] = False
            elif kind == "created":
                ep += 1
                truth.epoch[cid] = ep
                truth.live[cid] = True
                truth.hooks["created"] += 1
                evs.append("sa/1")
            elif kind == "resumed":
                evs.append("sa/0")
            elif kind == "connected":
                truth.hooks["connected"] += 1
                evs.append(f"cc/{cid}")
            elif kind == "closed":
                truth.hooks["closed"] += 1
                evs.append(f"cd/{cid}")
            elif kind == "dropped":
                d = truth.drops.setdefault((cid, ep), {})
                d[(ev[2], ev[3])] = d.get((ev[2], ev[3]), 0) + 1
                evs.append(f"md/{cid}/{ev[2]}/{ev[3]}/1")
        # older epochs first (their connections may still have exchanged something), then the current one with its queue
        eps = sorted({e for (c, e) in truth.conn_epoch.values() if c == cid} | {ep})
        for e in eps:
            flush(cid, e, e == ep and truth.live.get(cid, False))
    return evs

def hint(ops, impl_out):
    """ops for the model: every `stats` op carries the events derived from the harness's ground truth since the previous one"""
    truth, prev, res = Truth(), None, []
    for op, line in zip(ops, impl_out):
        truth.note_op(op)
        if op.split()[0] == "stats":
            snap = Snap(line)
            if snap.ok:
                evs = derive_events(truth, prev, snap)
                prev = snap
                op = "stats ev=" + ";".join(evs)
        res.append(op)
    return res

# ---------------------------------------------------------------- predicate (independent of the Lean model)

def expect_client(truth, snap, cid, ep):
    exp = {}
    def add(k, v):
        if v:
            exp[k] = exp.get(k, 0) + v
    for conn, t in snap.t.items():
        if truth.conn_epoch.get(conn) != (cid, ep):
            continue
        for ty, (n, b) in t["tx"].items():
            add("pr." + ty, n); add("br." + ty, b); add("pr.total", n); add("br.total", b)
        for ty, (n, b) in t["rx"].items():
            add("ps." + ty, n); add("bs." + ty, b); add("ps.total", n); add("bs.total", b)
        for q, n in t["mtx"].items():
            add("mr.q" + q, n)
        for q, n in t["mrx"].items():
            add("ms.q" + q, n)
    for (q, reason), n in truth.drops.get((cid, ep), {}).items():
        add(f"md.q{q}.{reason}", n)
    l, i = snap.q.get(cid, (0, 0))
    add("queued", l); add("infl", i)
    return exp

def expect_global(truth, snap):
    exp = {}
    def add(k, v):
        if v:
            exp[k] = exp.get(k, 0) + v
    for conn, t in snap.t.items():
        for ty, (n, b) in t["tx"].items():
            add("pr." + ty, n); add("br." + ty, b); add("pr.total", n); add("br.total", b)
        for ty, (n, b) in t["rx"].items():
            add("ps." + ty, n); add("bs." + ty, b); add("ps.total", n); add("bs.total", b)
        for q, n in t["mtx"].items():
            add("mr.q" + q, n)
        for q, n in t["mrx"].items():
            add("ms.q" + q, n)
    for d in truth.drops.values():
        for (q, reason), n in d.items():
            add(f"md.q{q}.{reason}", n)
    for l, i in snap.q.values():
        add("queued", l); add("infl", i)
    add("active", snap.n[0]); add("inactive", snap.n[1])
    add("cn.connected", truth.hooks["connected"]); add("cn.disconnected", truth.hooks["closed"])
    add("se.created", truth.hooks["created"])
    for r in ("normal", "takenover", "expired"):
        add("se.term." + r, truth.hooks[r])
    return exp

def diff_counters(got, exp, skip=("subs.",)):
    out = []
    for k in sorted(set(got) | set(exp)):
        if k.startswith(skip):
            continue
        if got.get(k, 0) != exp.get(k, 0):
            out.append(f"{k}: broker {got.get(k, 0)}, actual {exp.get(k, 0)}")
    return out

def classify(scope, d):
    """defect class of one counter difference"""
    k = d.split(":")[0]
    if k.startswith(("mr.q", "ms.q")):
        return "per-client QoS 1/2 messages counted under QoS 0" if scope != "global" else "global message counters"
    if k == "infl":
        return "global in-flight gauge" if scope == "global" else "client in-flight gauge"
    if k == "queued":
        return "global queued gauge" if scope == "global" else "client queued gauge"
    if k in ("active", "inactive"):
        return "session gauges"
    if k.startswith(("pr.auth", "br.auth", "ps.auth", "bs.auth")):
        return "AUTH packets invisible"
    if k.startswith(("pr.", "br.", "ps.", "bs.")):
        return "packet / byte counters"
    if k.startswith("md."):
        return "dropped-message counters"
    return "connection / session counters"

def predicate(ops, out):
    if len(out) != len(ops) or (out and out[0].startswith("CRASH")):
        return "implementation crashed or hung: " + (out[0] if out else "")
    truth, prev = Truth(), None
    found = {}          # defect class -> first evidence
    def note(cls, msg):
        found.setdefault(cls, msg)
    for i, (op, line) in enumerate(zip(ops, out)):
        if "HANG" in line:
            return f"broker did not become quiescent after `{op}`"
        truth.note_op(op)
        if op.split()[0] != "stats":
            continue
        snap = Snap(line)
        if not snap.ok:
            return f"op {i} `stats`: unparsable output {line[:200]}"
        derive_events(truth, prev, snap)      # updates epochs, drops, hook counts
        prev = snap
        where = f"op {i} `stats` (after `{ops[i - 1]}`)"
        for scope, d in [("global", snap.g)] + [("client " + c, v) for c, v in snap.c.items()]:
            for k, v in d.items():
                if v >= 2 ** 63:
                    note("gauge wrapped below zero", f"{where}: {scope} counter {k} = {v}")
        # per client
        for cid in sorted(set(snap.c) | {c for c, alive in truth.live.items() if alive}):
            if not truth.live.get(cid, False):
                if cid in snap.c:
                    note("statistics entry without session", f"{where}: entry for {cid}")
                continue
            got = snap.c.get(cid, {})
            exp = expect_client(truth, snap, cid, truth.epoch[cid])
            for d in diff_counters(got, exp):
                note(classify("client", d), f"{where}: client {cid}: {d}")
            if cid != "~" and got.get("subs.cur", 0) != snap.s.get(cid, 0):
                note("subscription counters", f"{where}: client {cid}: subs.cur: broker {got.get('subs.cur', 0)}, actual {snap.s.get(cid, 0)}")
        for d in diff_counters(snap.g, expect_global(truth, snap)):
            note(classify("global", d), f"{where}: global: {d}")
        if snap.g.get("subs.cur", 0) != sum(snap.s.values()):
            note("subscription counters", f"{where}: global: subs.cur: broker {snap.g.get('subs.cur', 0)}, actual {sum(snap.s.values())}")
    if not found:
        return None
    # the class list fills the first 80 characters (core groups failures by that prefix): one report per combination of classes
    return ("[" + " | ".join(sorted(found)) + "]").ljust(82) + " " + "; ".join(found[k] for k in sorted(found))[:1500]

def nontrivial(ops, out):
    """some statistics snapshot shows a drop, a non-empty queue, a terminated session, or packets booked under client id """""
    for op, line in zip(ops, out):
        if op == "stats" and ("md.q" in line or "queued=" in line or "se.term" in line or "C:~{" in line):
            return True
    return False

def canon(ops, out):
    res = []
    for op, line in zip(ops, out):
        if op.split()[0] != "stats":
            res.append(line if (line.startswith(("CRASH", "panic")) or line in ("no-broker", "invalid-config", "ok")) else "-")
            continue
        left = line.partition(" ## ")[0]
        left = re.sub(r",?subs\.(cur|total)=\d+", "", left)
        left = re.sub(r"\{,", "{", left).replace("G:,", "G:")
        res.append(left)
    return res

ORACLE_ARGS = ["asis"] if os.environ.get("VERIF_C20_ASIS") else []

def streams(tier):
    n = 1 if tier == "quick" else 12
    mk = lambda name, gen, k: (core.Stream(name, "stats", gen, predicate, nontrivial, canon=canon, keep_prefix=1, hint=hint,
                                           oracle_args=ORACLE_ARGS), k)
    return [mk("stats-session", gen_session, 180 * n), mk("stats-deliver", gen_deliver, 100 * n), mk("stats-drops", gen_drops, 150 * n),
            mk("stats-refused", gen_refused, 50 * n), mk("stats-burst", gen_burst, 40 * n)]

def _why(info):
    return info.get("why") or ""

F34_CLASSES = {"per-client QoS 1/2 messages counted under QoS 0", "global in-flight gauge", "global queued gauge",
               "gauge wrapped below zero", "AUTH packets invisible"}

def rec_f34(info):
    """every defect class named in the reason is one of the F34 facets"""
    m = re.match(r"\[(.*?)\]", _why(info))
    return bool(m) and set(m.group(1).split(" | ")) <= F34_CLASSES

RECOGNISERS = {"c20_f34_stats": rec_f34}

def extra(r):
    """model-side search for the obligation session_stats_events_under_mu: a session-scoped statistics event booked outside srv.mu
    can land behind the events of the next session of the same client id; the event log below is then possible, and the model
    (Stats.run) shows the live session's figures gone"""
    import os, subprocess
    try:
        facts = open(os.path.join(core.LEAN, "GmqttVerif", "Generated", "MuHeld.lean")).read()
    except OSError:
        return
    m = re.search(r"def statsSessionSiteCodes : List Nat :=\s*\n\s*\[(.*?)\]", facts)
    ms = re.search(r"def statsSessionSites : List String :=\s*\n\s*\[(.*?)\]\n", facts, re.S)
    if not m:
        return
    codes = [int(x) for x in m.group(1).split(",") if x.strip()]
    sites = re.findall(r'"([^"]*)"', ms.group(1)) if ms else []
    bad = [sites[i] if i < len(sites) else "?" for i, c in enumerate(codes) if c == 0]
    if not bad:
        return
    # connection 1 of client c ends (session not kept): its sessionTerminated is late; connection 2 of the same id registers,
    # connects and receives a packet in between
    evs = "sa/1;cc/c;pr/c/connect/1/20;cd/c;sa/1;cc/c;pr/c/connect/1/20;pr/c/publish/3/60;st/c/normal"
    ops = ["new", "stats ev=" + evs]
    try:
        out = subprocess.run([core.oracle_exe("stats")], input="\n".join(ops) + "\n", capture_output=True, text=True, timeout=60).stdout.split("\n")
    except Exception as e:          # noqa
        out = ["?", f"(oracle_stats not run: {e})"]
    body = ("# server: a session-scoped statistics event is booked without srv.mu held: " + "; ".join(bad) + "\n"
            "# (Generated/MuHeld.lean statsSessionSiteCodes = %s). A new session of the same client id can be registered as soon as the lock is\n"
            "# free, so this event log is possible: the end of connection 1's session (`st/c`) lands behind connection 2's CONNECT and three\n"
            "# PUBLISH packets. The model (oracle_stats, Stats.run) then shows client c's per-client entry gone while its session is live:\n"
            "#   %s\n#stream stats-late-termination-log\n" % (codes, (out[1] if len(out) > 1 else "?")[:600])) + "\n".join(ops) + "\n"
    r.violation("late-session-event", body, True, "a session-scoped statistics event is booked outside srv.mu (event log in the replay)")

def run(r):
    return core.standard_run(r, __import__(__name__, fromlist=["x"]))

RULE = ("wire workloads (session lifecycles with take-over / expiry / termination, delivery tables, overflowing and oversized queues) on a "
        "real in-process broker with a `stats` snapshot after every op; ground truth = bytes counted at the scripted clients' sockets, "
        "packets they decoded, hook calls (session created/resumed/terminated, connected, closed, dropped) and the real queue contents; "
        "the Python predicate recomputes every counter per client session and globally; the Lean model of statsManager folds the "
        "events derived from the same ground truth and must print the same dump. non-trivial = a snapshot shows a drop, a non-empty "
        "queue, a terminated session, or packets of never-accepted connections (client id \"\")")
ASSUME = ["ground truth for drops and session events comes from the broker's own hooks (OnMsgDropped etc.), which fire next to the "
          "statsManager calls; whether a drop was right is C10's matter",
          "cumulative counters stay below 2^64; gauges are integers modulo 2^64",
          "`race` ops are removed from the reused session scenarios (their connections are not kept by the harness)"]
