"""Generator of session-lifecycle wire scenarios (shared by C03 / C04 / C05 / C08 streams)."""

def gen_session(rng, wills=False, flow=False):
    se_cfg = rng.choice([7200, 7200, 60, 600])
    mi = rng.choice([1, 2, 3, 100]) if flow else 100
    # with a tight window the order of copies of one message (a Go map order) would become visible over time:
    # flow-control scenarios use onlyonce mode (one copy per client)
    mode = 'onlyonce' if flow else rng.choice(['overlap', 'onlyonce'])
    # overlap mode: the copies of one message for several overlapping subscriptions are enqueued in Go map order, and a resume
    # replays them in that order (C03) — which copy gets which packet id is then visible and not predictable. In overlap mode the
    # client therefore keeps ONE filter (re-subscribed with other options); overlapping filters in overlap mode are C01's business
    one_filter = rng.choice(["t/a", "t/#", "t/+", "+/a"]) if mode == 'overlap' else None
    ops = [f"new mode={mode} q0={rng.choice([0, 1])} se={se_cfg} mi={mi} maxq={rng.choice([1000, 1000, 3, 5]) if flow else 1000}"]
    ops.append("conn p cp v=5 cs=1")
    ops.append("sub p 1 w/#|1")         # the publisher also watches the will topic
    pid, tag, life = 1, 0, 0
    cur = None            # current connection name of client cx (None = offline)
    ver = 4
    def connect(cs=None):
        nonlocal life, cur, ver
        life += 1
        ver = rng.choice([4, 5, 5])
        name = f"x{life}"
        line = f"conn {name} cx v={ver} cs={rng.choice([0, 0, 0, 1]) if cs is None else cs}"
        if ver == 5:
            r = rng.random()
            if r < 0.7:
                line += f" se={rng.choice([0, 30, 30, 300, 4294967295])}"
            if flow and rng.random() < 0.7:
                line += f" rm={rng.choice([1, 2, 3, 10, 65535])}"
        if wills and rng.random() < 0.6:
            line += f" will=w/x,{rng.choice([0, 1])},{rng.choice([0, 1])},{rng.choice([0, 0, 1, 2]) if ver == 5 else 0},W{life}"
        ops.append(line)
        cur = name
    def dupflag(q):
        # a publisher that retransmits (its own connection had been cut before the ack) sets DUP=1; the flag belongs to THAT
        # hop: what the broker sends on must start with DUP=0 (seed C03-4)
        return " d=1" if q and rng.random() < 0.2 else ""
    def acks(name, full=None):
        mode = full if full is not None else rng.choice(["all", "all", "none", "first", "rec-only", "rec-fail"])
        if mode == "all":
            ops.extend([f"ack {name} puback all", f"ack {name} pubrec all", f"ack {name} pubcomp all"])
        elif mode == "first":
            ops.extend([f"ack {name} puback k=0", f"ack {name} pubrec k=0"])
        elif mode == "rec-only":
            ops.append(f"ack {name} pubrec all")
        elif mode == "rec-fail":
            # a v5 subscriber refuses a QoS 2 message: PUBREC with a failing reason code ends that delivery (no PUBREL follows, the
            # packet id is free again); a v3.1.1 client has no reason codes — the broker reads the packet as a plain PUBREC
            ops.append(f"ack {name} pubrec k=0 code={rng.choice([128, 131, 135, 144, 145, 151, 153])}")
    connect()
    for _ in range(rng.randint(4, 14)):
        r = rng.random()
        if cur is None:
            if r < 0.35:
                tag += 1; pid += 1
                q = rng.choice([0, 1, 1, 2])
                ops.append(f"pub p t/a q={q} pid={pid if q else 0} tag=m{tag}" + dupflag(q))
                if q == 2: ops.append(f"rel p {pid}")
                acks("p", "all")
            elif r < 0.5:
                ops.append(f"api backdate cx {rng.choice([10, 20, 40, 70, 310, 650, 8000])}")
            elif r < 0.6:
                ops.append("api expire")
            elif r < 0.65:
                ops.append("api term cx")
            elif r < 0.70 and not wills and not flow:
                # simultaneous CONNECTs with the one client id (all closed again afterwards)
                ops.append(f"race {rng.choice([2, 3, 4])} cx v={rng.choice([4, 5])} cs=0 se=300")
            else:
                connect()
                if rng.random() < 0.5:
                    acks(cur)
                if rng.random() < 0.3:
                    # time passes while the (possibly resumed) session is ONLINE, then the expiry sweep runs: the deadline
                    # the session had while it was offline must not count any more (seed C05-3)
                    ops.append(f"api backdate cx {rng.choice([40, 310, 650, 8000])}")
                    ops.append("api expire")
        else:
            if r < 0.2:
                pid += 1
                f = one_filter or rng.choice(["t/a", "t/#", "t/+", "+/a"])
                ops.append(f"sub {cur} {pid} {f}|{rng.choice([0, 1, 2])}")
            elif r < 0.5:
                tag += 1; pid += 1
                q = rng.choice([0, 1, 1, 2])
                ops.append(f"pub p t/a q={q} pid={pid if q else 0} tag=m{tag}" + dupflag(q))
                if q == 2: ops.append(f"rel p {pid}")
                acks("p", "all")
                acks(cur)
            elif r < 0.6:
                acks(cur)
            elif r < 0.7:
                line = f"disc {cur}"
                if ver == 5 and rng.random() < 0.5:
                    line += f" se={rng.choice([0, 30, 300])}"
                if ver == 5 and wills and rng.random() < 0.3:
                    line += " code=4"
                if rng.random() < 0.3:
                    # the DISCONNECT leaves pipelined behind 1-6 other packets in one write, then the socket closes (seed C08-3)
                    line += f" pre={rng.choice([1, 2, 6])}"
                ops.append(line); cur = None
            elif r < 0.8:
                ops.append(f"close {cur}"); cur = None
            elif r < 0.88:
                connect()          # take-over: a second connection with the same client id
            elif r < 0.92:
                ops.append("api term cx"); cur = None
            elif r < 0.95:
                ops.append(f"api backdate cx {rng.choice([10, 40, 70, 310, 8000])}")
            elif r < 0.975:
                ops.append("api expire")
            else:
                ops.append(f"ping {cur}")
    if cur is None:
        connect(cs=0)
    acks(cur, "all")
    ops.append(f"ping {cur}")
    return ops
