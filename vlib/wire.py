"""Wire-level scenario helpers shared by the properties that are tied through drive_broker / oracle_broker:
parsing of output lines, canonicalisation (broker-chosen packet ids, order inside one poll burst), and an
independent reference tracker of what each scripted client sent and received."""
import re

PUB = re.compile(r"publish\(t=([^,]*),q=(\d),r=(\d),d=(\d),id=(\d+),p=([^,]*),n=(\d+),sid=([^,]*),exp=([^,]*),al=([^,]*),sz=(\d+)\)")

def parse_line(line):
    """-> (prefix tokens, {conn: (H list, P list)})"""
    pre, conns = [], {}
    for tok in line.split(" "):
        if "|H:" in tok and "|P:" in tok:
            name, rest = tok.split("|H:", 1)
            h, p = rest.split("|P:", 1)
            conns[name] = (split_pkts(h), split_pkts(p))
        elif tok and tok != "-":
            pre.append(tok)
    return pre, conns

def split_pkts(s):
    """split 'a(..),b(..),c' at top-level commas"""
    out, depth, cur = [], 0, ""
    for ch in s:
        if ch == "(":
            depth += 1
        elif ch == ")":
            depth -= 1
        if ch == "," and depth == 0:
            out.append(cur); cur = ""
        else:
            cur += ch
    if cur:
        out.append(cur)
    return out

def pub_fields(p):
    m = PUB.match(p)
    if not m:
        return None
    t, q, r, d, i, tag, n, sid, exp, al, sz = m.groups()
    return dict(t=t, q=int(q), r=int(r), d=int(d), id=int(i), tag=tag, n=int(n), sid=sid, exp=exp, al=al, sz=int(sz))

def conn_map(ops):
    """conn name -> client id, per op index (conn names may be re-used for a new connection)"""
    m = {}
    for op in ops:
        f = op.split()
        if f and f[0] == "conn" and len(f) >= 3:
            m[f[1]] = f[2]
    return m

def canon(ops, out, ordered=False):
    """canonical form of one side's output: broker-chosen packet ids are renamed per session in order of first
    appearance (after sorting each poll burst, unless `ordered` or the op is a `conn` replay), so that legal
    differences in id allocation and in the order of copies inside one burst do not count as a mismatch."""
    cmap = {}
    labels = {}       # cid -> {raw id -> label}
    labtags = {}      # cid -> {raw id -> payload tag of the message the label was given to}
    counter = {}
    res = []
    for op, line in zip(ops, out):
        f = op.split()
        if f and f[0] == "conn" and len(f) >= 3:
            cmap[f[1]] = f[2]
        pre, conns = parse_line(line)
        parts = list(pre)
        for name in sorted(conns):
            h, p = conns[name]
            cid = cmap.get(name, name)
            lab = labels.setdefault(cid, {})
            # a fresh session restarts the numbering
            for x in h:
                if x.startswith("connack(sp=0,code=0"):
                    lab.clear(); counter[cid] = 0; labtags.pop(cid, None)
            keep_order = ordered or (f and f[0] == "conn" and f[1] == name)
            masked = []
            for x in p:
                m = PUB.match(x)
                if m:
                    masked.append((re.sub(r",id=\d+", ",id=?", x), x, int(m.group(5)), int(m.group(2))))
                else:
                    mm = re.match(r"pubrel\((\d+)\)", x)
                    masked.append(("pubrel(?)" if mm else x, x, int(mm.group(1)) if mm else 0, 1 if mm else 0))
            skey = lambda t: (t[0], "" if (t[0].startswith("publish") and ",d=0," in t[0]) else lab.get(t[2], ""))
            if not keep_order:
                # pubrels keep referring to known ids: sort by label when known
                masked.sort(key=skey)
            elif not ordered:
                # resumed connect: the replay (DUP publishes and PUBRELs) keeps its order, the new messages behind it
                # are in queue order, which for copies of one message is a Go map order
                k = 0
                while k < len(masked) and (masked[k][0].startswith("pubrel") or ",d=1," in masked[k][0]):
                    k += 1
                masked = masked[:k] + sorted(masked[k:], key=skey)
            outp = []
            for mk, x, rid, q in masked:
                if q > 0 or mk.startswith("pubrel"):
                    fresh = mk.startswith("publish") and ",d=0," in mk     # a first transmission always is a new message
                    tg = re.search(r",p=([^,]*),", x)
                    tg = tg.group(1) if tg and mk.startswith("publish") else None
                    ltag = labtags.setdefault(cid, {})
                    # a retransmission whose FIRST transmission was not seen (it went to a connection of a `race` op, which the
                    # harness does not keep): the raw id may have labelled another message before — it is a new message here
                    if tg is not None and rid in lab and ltag.get(rid) not in (None, tg):
                        fresh = True
                    if fresh or rid not in lab:
                        counter[cid] = counter.get(cid, 0) + 1
                        lab[rid] = f"#{counter[cid]}"
                    if tg is not None:
                        ltag[rid] = tg
                    x = re.sub(r",id=\d+", ",id=" + lab[rid], x) if mk.startswith("publish") else f"pubrel({lab[rid]})"
                outp.append(x)
            outh = []
            for x in h:
                if x == "disconnect(142)":
                    # take-over: the DISCONNECT(0x8E) races with the immediate close of the displaced socket
                    # (lockDuplicatedID: setError then Close) and no property asks for it
                    continue
                mm = re.match(r"pubrel\((\d+)\)", x)
                if mm:
                    rid = int(mm.group(1))
                    x = f"pubrel({lab.get(rid, '?' + str(rid))})"
                outh.append(x)
            parts.append(name + "|H:" + ",".join(outh) + "|P:" + ",".join(outp))
        res.append(" ".join(parts) if parts else "-")
    return res

def shared_hints(ops, impl_out):
    """append `hint=<sid>+<sid>` to pub / api pub ops: the subscription ids (of shared subscriptions) that the real
    broker delivered to — the model resolves `rand.Intn` with it."""
    shared_ids = set()
    for op in ops:
        f = op.split()
        if f and f[0] == "sub":
            sid = next((t[3:] for t in f if t.startswith("id=")), None)
            if sid and any(t.startswith("$share/") for t in f[3:]):
                shared_ids.add(sid)
    res = []
    cmap = {}
    for op, line in zip(ops, impl_out):
        f = op.split()
        if f and f[0] == "conn" and len(f) >= 3:
            cmap[f[1]] = f[2]
        if f and (f[0] == "pub" or (f[0] == "api" and len(f) > 1 and f[1] == "pub")):
            _, conns = parse_line(line)
            got, rap = set(), set()
            for name, (h, p) in conns.items():
                for x in p:
                    pf = pub_fields(x)
                    if pf and pf["sid"] != "-":
                        for s in pf["sid"].split("+"):
                            if s in shared_ids:
                                got.add(s)
                    if pf and pf["r"] == 1:
                        rap.add(cmap.get(name, name))
            if got:
                op = op + " hint=" + "+".join(sorted(got, key=int))
            if rap:     # which tied maximal-QoS subscription supplied RAP in onlyonce mode (Go map order)
                op = op + " rap=" + "+".join(sorted(rap))
        res.append(op)
    return res


class Rx:
    __slots__ = ("op", "tag", "sids", "qos", "id", "acked", "comp", "conn", "key")
    def __init__(self, op, tag, sids, qos, rid, conn, key=""):
        self.op, self.tag, self.sids, self.qos, self.id, self.acked, self.comp, self.conn = op, tag, sids, qos, rid, False, False, conn
        self.key = key
    def __repr__(self):
        return f"<{self.tag} q{self.qos} id={self.id} {'acked' if self.acked else ''}{' comp' if self.comp else ''}>"

class Sessions:
    """the scripted clients' own bookkeeping, identical to what drive_broker keeps: which QoS>0 PUBLISH packets each
    session received and which acknowledgements the script sent. Used by predicates to resolve `ack` ops."""
    def __init__(self):
        self.rx = {}        # cid -> [Rx]
        self.cid = {}       # conn -> cid
        self.ver = {}       # conn -> version
        self.opi = 0
        self.collisions = []   # (cid, fields) first transmissions that reuse the id of an unfinished message

    def outstanding(self, cid, kind):
        es = [e for e in self.rx.get(cid, []) if
              (kind == "puback" and e.qos == 1 and not e.acked) or
              (kind == "pubrec" and e.qos == 2 and not e.acked) or
              (kind == "pubcomp" and e.qos == 2 and e.acked and not e.comp)]
        es.sort(key=lambda e: (e.op, e.tag, e.sids, e.key))
        return es

    def unfinished(self, cid):
        """received and not yet completely acknowledged (awaiting PUBACK / PUBCOMP), in arrival order"""
        return [e for e in self.rx.get(cid, []) if not (e.acked and (e.qos == 1 or e.comp))]

    def step(self, op, line):
        """feed one op and the implementation's output line; returns (fields, conns, acked entries of this op)"""
        self.opi += 1
        f = op.split()
        pre, conns = parse_line(line)
        acked = []
        if f[0] == "conn" and len(f) >= 3:
            self.cid[f[1]] = f[2]
            self.ver[f[1]] = int(next((x[2:] for x in f if x.startswith("v=")), "4"))
            self.rx.setdefault(f[2], [])
        if f[0] == "ack" and f[1] in self.cid and len(f) >= 3:
            cid = self.cid[f[1]]
            es = self.outstanding(cid, f[2])
            kv = dict(x.split("=", 1) for x in f if "=" in x)
            pick = es if "all" in f[3:] else es[int(kv.get("k", 0)):int(kv.get("k", 0)) + 1]
            code = int(kv.get("code", 0))
            for e in pick:
                if f[2] == "puback":
                    e.acked = True
                elif f[2] == "pubrec":
                    e.acked = True
                    if code >= 128 and self.ver.get(f[1]) == 5: e.comp = True      # v3.1.1 has no reason codes: a plain PUBREC
                else:
                    e.comp = True
                acked.append(e)
        for name in sorted(conns):
            h, p = conns[name]
            cid = self.cid.get(name, name)
            for x in h:
                if x.startswith("connack(sp=0,code=0"):
                    self.rx[cid] = []
            for x in p:
                pf = pub_fields(x)
                if pf and pf["q"] > 0:
                    l = self.rx.setdefault(cid, [])
                    known = any(e.id == pf["id"] and not (e.acked and (e.qos == 1 or e.comp)) for e in l)
                    if known and pf["d"] == 0:
                        self.collisions.append((cid, pf))
                    if not known:
                        l.append(Rx(self.opi, pf["tag"], pf["sid"], pf["q"], pf["id"], name, re.sub(r",id=\d+", ",id=?", x)))
        return f, pre, conns, acked
